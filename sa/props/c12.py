"""C12 - simulation results are a function of (model, survey), not of history.

Ownership / effect analysis of emg3d.simulations.Simulation (DESIGN.md 4/C12):
  OW1  a store to a derived item outside its owner is followed, on every path
       to the method's exit, by restore-or-invalidate of the item, and every
       cache filled from it in the meantime is invalidated again
  OW2  a store to an input item invalidates every dependent cache
  OW3  clean() resets every derived item; file patterns cover all hand-overs
  OW4  every task builder sets its tolerance before handing solver_opts over
  OW5  copies are deep; from_dict copies solver_opts before mutating it
"""
import ast

import networkx as nx

from ..core import astutil as au
from ..core.cfg import CFG
from ..core.effects import root_name as _root_name
from ..core.report import AnalysisError
from ..core.tables import FiniteEval
from ..core.template import find, has

LEVEL = 'other'
SIMS = 'emg3d/simulations.py'

# derived items -> owners (functions allowed to store canonical values)
OWNERS = {
    'synthetic': {'_compute', '_compute_1d'},
    'weights': {'misfit'},
    'residual': {'misfit'},
    '_misfit': {'misfit'},
    '_gradient': {'gradient'},
    '_dict_bfield': {'_bcompute'},
    '_dict_bfield_info': {'_bcompute'},
    '_dict_efield': {'_compute'},
    '_dict_efield_info': {'_compute'},
    '_dict_grid': {'get_grid', '_set_model'},
    '_computed': {'compute'},
}
INPUTS = {'observed', 'model'}
RESETTERS = {'clean', '__init__', 'from_dict'}
# frozen dependency table (confirmed by reading; re-validated against the
# computed read sets on every run):  item -> caches computed from it
DEPS = {
    'observed': ['_misfit', 'residual', 'weights', '_gradient',
                 '_dict_bfield', '_dict_bfield_info'],
    'residual': ['_gradient', '_dict_bfield', '_dict_bfield_info'],
    'weights': ['_gradient', '_dict_bfield', '_dict_bfield_info'],
    'synthetic': ['_misfit', 'residual'],
}
# cached members: property name -> (cache item, extra items filled by callees)
CACHED = {'gradient': ('_gradient', ['_dict_bfield', '_dict_bfield_info']),
          'misfit': ('_misfit', ['residual', 'weights'])}
DATA_ITEMS = ('synthetic', 'observed', 'residual', 'weights')


def item_of_path(txt):
    """Map a store/read target text to an item name (or None)."""
    t = txt.replace(' ', '').replace('"', "'")
    for pre in ('self.survey.data', 'self.data'):
        for it in DATA_ITEMS:
            if t.startswith(f"{pre}['{it}']") or t.startswith(f'{pre}.{it}'):
                nxt = t[len(f"{pre}['{it}']"):] if t.startswith(
                    f"{pre}['{it}']") else t[len(f'{pre}.{it}'):]
                if nxt[:1] in ('', '.', '['):
                    return it
    if t.startswith('self.'):
        name = t[5:].split('[')[0].split('.')[0]
        if name in OWNERS or name in ('model', 'solver_opts'):
            return name
    return None


class Effects:
    """Reads / writes of items per Simulation member, transitively."""

    def __init__(self, ctx, mod):
        self.mod = mod
        self.cls = mod.cls('Simulation')
        self.members = {}
        for n in self.cls.body:
            if isinstance(n, ast.FunctionDef):
                decs = au.decorator_names(n)
                if any(d.endswith('.setter') for d in decs):
                    self.members[n.name + '.setter'] = n
                else:
                    self.members.setdefault(n.name, n)
        self.direct_r, self.direct_w, self.uses = {}, {}, {}
        for name, fn in self.members.items():
            r, w, u = set(), set(), set()
            for n in ast.walk(fn):
                if isinstance(n, (ast.Attribute, ast.Subscript)):
                    it = item_of_path(ast.unparse(n))
                    if it:
                        if isinstance(n.ctx, (ast.Store, ast.Del)):
                            w.add(it)
                        else:
                            r.add(it)
                if isinstance(n, ast.Attribute) and isinstance(
                        n.value, ast.Name) and n.value.id == 'self' and \
                        n.attr in self.members and n.attr != name:
                    u.add(n.attr)
            for st in ast.walk(fn):
                w |= {i for i, _ in stmt_effects(st)[0]}
            self.direct_r[name], self.direct_w[name], self.uses[name] = r, w, u
        self.reads, self.writes = {}, {}
        for name in self.members:
            seen, stack = set(), [name]
            R, W = set(), set()
            while stack:
                m = stack.pop()
                if m in seen or m not in self.members:
                    continue
                seen.add(m)
                R |= self.direct_r[m]
                W |= self.direct_w[m]
                stack.extend(self.uses[m])
            self.reads[name], self.writes[name] = R, W


def literal_loop(st):
    """for name in [<literals>]  ->  (var, [values]) else None."""
    if isinstance(st, ast.For) and isinstance(st.target, ast.Name):
        vals = au.const_list(st.iter)
        if vals is not None:
            return st.target.id, vals
    return None


def stmt_effects(st, env=None):
    """(stores, invalidations) of one *simple* statement.

    stores: [(item, node)] canonical value stores; invalidations: set of items
    set to None / deleted / re-initialised.  `env` binds loop names to
    literals (for setattr/delattr/del with names from literal lists)."""
    env = env or {}
    stores, inval = [], set()

    def name_of(n):
        if isinstance(n, ast.Constant) and isinstance(n.value, str):
            return n.value
        if isinstance(n, ast.Name) and n.id in env:
            return env[n.id]
        return None
    if isinstance(st, ast.Assign):
        for t in st.targets:
            for e in (t.elts if isinstance(t, ast.Tuple) else [t]):
                it = item_of_path(ast.unparse(e))
                if it is None and isinstance(e, ast.Subscript):
                    # self.data[key] with key from a literal loop
                    k = name_of(e.slice)
                    if k and ast.unparse(e.value) in ('self.data',
                                                      'self.survey.data'):
                        it = k if k in DATA_ITEMS else None
                if it is None:
                    continue
                v = st.value
                if isinstance(v, ast.Constant) and v.value in (None, False) \
                        and ast.unparse(e) == f'self.{it}':
                    inval.add(it)
                elif it == 'synthetic' and 'np.nan' in ast.unparse(v):
                    inval.add(it)
                elif ast.unparse(v) == 'self._dict_initiate':
                    inval.add(it)
                else:
                    stores.append((it, st))
    elif isinstance(st, ast.AugAssign):
        it = item_of_path(ast.unparse(st.target))
        if it:
            stores.append((it, st))
    elif isinstance(st, ast.Delete):
        for t in st.targets:
            it = item_of_path(ast.unparse(t))
            if it is None and isinstance(t, ast.Subscript):
                k = name_of(t.slice)
                if k in DATA_ITEMS and ast.unparse(t.value) in (
                        'self.data', 'self.survey.data'):
                    it = k
            if it:
                inval.add(it)
    elif isinstance(st, ast.Expr) and isinstance(st.value, ast.Call):
        c = st.value
        f = ast.unparse(c.func)
        if f in ('delattr', 'setattr') and len(c.args) >= 2 and \
                ast.unparse(c.args[0]) == 'self':
            k = name_of(c.args[1])
            if k in OWNERS:
                if f == 'delattr':
                    inval.add(k)
                else:
                    v = c.args[2]
                    if (isinstance(v, ast.Constant) and v.value is None) or \
                            ast.unparse(v) == 'self._dict_initiate':
                        inval.add(k)
                    else:
                        stores.append((k, st))
    return stores, inval


def compound_invalidations(st):
    """Items invalidated by a compound statement treated atomically:
    `for name in [literals]: [if hasattr/if key in ...:] delattr/del/...`."""
    a, b = compound_invalidations2(st)
    return a | b


def compound_invalidations2(st):
    """(unconditional, under an `if`) items invalidated by a literal loop."""
    ll = literal_loop(st)
    if ll is None:
        return set(), set()
    var, vals = ll
    out, outc = set(), set()
    for v in vals:
        env = {var: v}

        def walk(stmts, cond=False):
            for s in stmts:
                if isinstance(s, ast.If):
                    walk(s.body, True)
                else:
                    (outc if cond else out).update(stmt_effects(s, env)[1])
        walk(st.body)
    return out, outc


def node_invalidations(n):
    if n.kind == 'for':
        return compound_invalidations(n.ast)
    if n.kind == 'stmt' and n.ast is not None:
        return stmt_effects(n.ast)[1]
    return set()


def must_pass(cfg, start, targets):
    """Every path start -> exit passes through a node in `targets`
    (start itself excluded)."""
    g = cfg.graph()
    g.remove_nodes_from([t for t in targets if t is not start])
    reach = nx.descendants(g, start)
    return cfg.exit not in reach


# ---------------------------------------------------------------------------
def rule_OW1_OW2(ctx, mod, E):
    nstores = 0
    for name, fn in sorted(E.members.items()):
        if name in RESETTERS:
            continue
        cfg = CFG(fn)
        inv_nodes = {}
        for n in cfg.nodes:
            for it in node_invalidations(n):
                inv_nodes.setdefault(it, []).append(n)
        for n in cfg.nodes:
            if n.kind != 'stmt' or n.ast is None:
                continue
            stores, _ = stmt_effects(n.ast)
            # stores inside `with` bodies are separate nodes already
            for it, st in stores:
                qn = f'Simulation.{name}'
                where = ctx.where(mod, st)
                if it in OWNERS and name.split('.')[0] not in OWNERS[it]:
                    if n in restore_nodes(cfg, fn, None, it):
                        continue      # writes back a saved copy
                    nstores += 1
                    # (a) restore or invalidate the item itself
                    restores = restore_nodes(cfg, fn, n, it)
                    ok_a = must_pass(cfg, n, inv_nodes.get(it, []) + restores)
                    ctx.check('C12.OW1.restore', f'{qn}: store to {it} '
                              f'`{au.stext(st)}`', ok_a,
                              f'{it} is owned by {sorted(OWNERS[it])}; {name} '
                              f'overwrites it and does not restore or '
                              f'invalidate it on every path to its exit',
                              where, sample={'method': qn, 'item': it})
                    # (b) caches filled from the overwritten item
                    for prop, (cache, extra) in CACHED.items():
                        if it not in E.reads.get(prop, set()):
                            continue
                        uses = [u for u in cfg.nodes if u.ast is not None and
                                u.kind in ('stmt', 'return', 'test') and any(
                                    isinstance(a, ast.Attribute) and
                                    ast.unparse(a) == f'self.{prop}'
                                    for a in ast.walk(u.ast)) and
                                (u in cfg.reachable_between(n, u)
                                 if u is not n else False)]
                        for u in uses:
                            for y in [cache] + extra:
                                if y == it:
                                    continue
                                ok_b = must_pass(cfg, u, inv_nodes.get(y, []))
                                if u.kind == 'return':
                                    ok_b = False
                                ctx.check(
                                    'C12.OW1.cache', f'{qn}: self.{prop} '
                                    f'evaluated on overwritten {it}, cache '
                                    f'{y}', ok_b, f'`self.{prop}` is '
                                    f'evaluated after {it} was overwritten '
                                    f'and {y} (filled from it) is not '
                                    'invalidated afterwards: later queries '
                                    'return history-dependent values',
                                    ctx.where(mod, u.ast),
                                    sample={'method': qn, 'cache': y})
                elif it in INPUTS and not name.startswith('_') and \
                        it in DEPS:
                    nstores += 1
                    missing = [y for y in DEPS[it] if not must_pass(
                        cfg, n, inv_nodes.get(y, []))]
                    ctx.check('C12.OW2.input', f'{qn}: store to input {it} '
                              f'`{au.stext(st)}`', not missing,
                              f'{name} replaces {it} but leaves the caches '
                              f'{missing} that were computed from the old '
                              'values', where,
                              sample={'method': qn, 'input': it,
                                      'dependents': DEPS[it]})
    ctx.floor('C12.OW1.restore', 1)
    ctx.floor('C12.OW2.input', 1)
    # the frozen dependency table is still what the code reads
    for it, deps in DEPS.items():
        for y in deps:
            owners = OWNERS[y]
            ok = any(it in E.reads.get(o, set()) for o in owners) or any(
                z in E.reads.get(o, set()) for o in owners
                for z in DEPS if y in DEPS.get(z, []) and it in
                [k for k, v in DEPS.items() if z in v])
            ctx.need(ok or it == 'observed', f'dependency table out of date: '
                     f'{y} no longer reads {it}')
    return nstores


def restore_nodes(cfg, fn, store_node, item):
    """Nodes after the store that write back a copy saved before it."""
    saved = set()
    for n in cfg.nodes:
        st = n.ast
        if n.kind == 'stmt' and isinstance(st, ast.Assign) and \
                len(st.targets) == 1 and isinstance(st.targets[0], ast.Name):
            txt = ast.unparse(st.value)
            reads_item = any(item_of_path(ast.unparse(a)) == item
                             for a in ast.walk(st.value)
                             if isinstance(a, (ast.Attribute, ast.Subscript)))
            if reads_item and '.copy(' in txt and (
                    store_node is None or
                    store_node in cfg.reachable_between(n, store_node)):
                saved.add(st.targets[0].id)
    out = []
    for n in cfg.nodes:
        st = n.ast
        if n.kind == 'stmt' and isinstance(st, ast.Assign) and n is not \
                store_node and isinstance(st.value, ast.Name) and \
                st.value.id in saved and any(
                    item_of_path(ast.unparse(t)) == item for t in st.targets):
            out.append(n)
    return out


# ---------------------------------------------------------------------------
def rule_OW3(ctx, mod, E):
    fn = E.members['clean']
    ps = au.params(fn)
    need = {'computed': {'_dict_efield', '_dict_efield_info', '_dict_bfield',
                         '_dict_bfield_info', '_computed', 'residual',
                         'weights', 'synthetic', '_gradient', '_misfit'},
            'keepresults': {'_dict_grid', '_dict_efield', '_dict_efield_info',
                            '_dict_bfield', '_dict_bfield_info'}}
    need['all'] = need['computed'] | {'_dict_grid'}
    # items that need not exist (created by the gradient / the misfit only):
    # dropping them `if they exist` is a complete reset.  Everything else
    # always exists and holds a value of the last computation, so a reset
    # under an existence test of SOMETHING ELSE is not a reset
    optional = {'_dict_bfield', '_dict_bfield_info', 'residual', 'weights'}
    for what, want in need.items():
        got, gotc = set(), set()

        def walk(stmts, cond=False):
            for st in stmts:
                if isinstance(st, ast.If):
                    try:
                        v = FiniteEval({ps[1]: what}).ev(st.test)
                    except AnalysisError:
                        # hasattr / `in data.keys()` / file_dir guards
                        walk(st.body, True)
                        continue
                    walk(st.body if v else st.orelse, cond)
                elif isinstance(st, ast.For):
                    u_, c_ = compound_invalidations2(st)
                    (gotc if cond else got).update(u_)
                    gotc.update(c_)
                    if literal_loop(st) is None:
                        walk(st.body, cond)
                else:
                    (gotc if cond else got).update(stmt_effects(st)[1])
        walk(au.body_nodoc(fn))
        got |= gotc & optional
        missing = want - got
        ctx.check('C12.OW3.clean', f"Simulation.clean('{what}')", not missing,
                  f"clean('{what}') does not reset {sorted(missing)}",
                  ctx.where(mod, fn), sample={'what': what,
                                              'reset': sorted(got)})
    # file patterns: every `what` of _data_or_file is matched by the glob
    whats = set()
    for c in au.calls(E.cls, 'self._data_or_file'):
        if c.args and isinstance(c.args[0], ast.Constant):
            whats.add(c.args[0].value)
    globs = [c.args[0].value for c in au.calls_suffix(fn, 'glob')
             if c.args and isinstance(c.args[0], ast.Constant)]
    ctx.anchor(whats and globs, 'file hand-over names / clean glob')
    import fnmatch
    for w in sorted(whats):
        ok = any(fnmatch.fnmatch(f'{w}_Tx1_f-1.h5', g) for g in globs)
        ctx.check('C12.OW3.files', f"clean removes '{w}_*.h5'", ok,
                  f'files written for `{w}` tasks are not matched by the '
                  f'patterns {globs} that clean() unlinks', ctx.where(mod, fn),
                  sample={'what': w, 'globs': globs})
    ctx.floor('C12.OW3.clean', 3)
    ctx.floor('C12.OW3.files', 3)


def rule_OW4(ctx, mod, E):
    n = 0
    want = {'efield': 'self.tol_forward', 'bfield': 'self.tol_gradient',
            'gfield': 'self.tol_gradient'}
    for fn in [x for x in ast.walk(E.cls) if isinstance(x, ast.FunctionDef)]:
        hand = [d for d in ast.walk(fn) if isinstance(d, ast.Dict) and any(
            isinstance(k, ast.Constant) and k.value == 'solver_opts' and
            ast.unparse(v) == 'self.solver_opts'
            for k, v in zip(d.keys, d.values))]
        if not hand or any(isinstance(c, ast.FunctionDef) and c is not fn
                           and any(h in list(ast.walk(c)) for h in hand)
                           for c in ast.walk(fn) if c is not fn):
            continue
        if fn.name == 'to_dict':
            continue
        n += 1
        what = None
        for c in au.calls(fn, 'self._data_or_file'):
            if c.args and isinstance(c.args[0], ast.Constant):
                what = c.args[0].value
        tols = [s for s in ast.walk(fn) if isinstance(s, ast.Assign) and
                ast.unparse(s.targets[0]).replace('"', "'").endswith(
                    "['solver_opts']['tol']")]
        ok = len(tols) == 1 and ast.unparse(tols[0].value) == want.get(what)
        before = ok and all(tols[0].lineno < c.lineno for c in au.calls(
            fn, 'self._data_or_file'))
        ctx.check('C12.OW4.tol', f'Simulation.{au.qualname(fn).split(".", 1)[-1]}'
                  f' ({what})', ok and before,
                  f'task builder for `{what}` hands the shared solver_opts '
                  f'to the worker without setting tol to {want.get(what)} '
                  'first (the value left by the previous run is used)',
                  ctx.where(mod, fn), sample={'builder': fn.name,
                                              'what': what})
    to_dict_tol(ctx, mod, E.members['to_dict'], 'C12.OW4.tol')
    ctx.floor('C12.OW4.tol', 4)


def to_dict_tol(ctx, mod, td, rule):
    """The solver options written by to_dict carry the FORWARD tolerance:
    `solver_opts['tol']` is a scratch entry that the last solver call left
    (tol_gradient after gradient / jvec / jtvec)."""
    tols = [s for s in td.body if isinstance(s, ast.Assign) and ast.unparse(
        s.targets[0]).replace('"', "'") == "self.solver_opts['tol']"]
    outs = [s for s in td.body if isinstance(s, ast.Assign) and isinstance(
        s.value, ast.Dict) and any(isinstance(k, ast.Constant) and
                                   k.value == '__class__'
                                   for k in s.value.keys)]
    ok = False
    if outs:
        d = outs[0].value
        emitted = [v for k, v in zip(d.keys, d.values) if isinstance(
            k, ast.Constant) and k.value == 'solver_opts']
        if len(emitted) == 1:
            v = emitted[0]
            if ast.unparse(v) == 'self.solver_opts':
                # the shared dict itself: restored just before
                ok = len(tols) == 1 and ast.unparse(tols[0].value) == \
                    'self.tol_forward' and tols[0].lineno < outs[0].lineno
            elif isinstance(v, ast.Dict):
                # a merged literal: the LAST tol entry wins
                last = None
                for k, x in zip(v.keys, v.values):
                    if k is None and ast.unparse(x) == 'self.solver_opts':
                        last = 'scratch'
                    elif isinstance(k, ast.Constant) and k.value == 'tol':
                        last = ast.unparse(x)
                ok = last == 'self.tol_forward'
    ctx.check(rule, 'Simulation.to_dict', ok,
              'to_dict serialises solver_opts with the scratch tolerance of '
              'the last solver call instead of the forward tolerance',
              ctx.where(mod, td))


def plain_strip(ctx, mod, td, rule):
    """to_dict('plain') gives the simulation `as initiated`: of the survey
    it may drop only what a simulation derives (synthetic, residual,
    weights); every other data set (observed, user data, noise arrays)
    belongs to the survey and travels with it."""
    derived = {'synthetic', 'residual', 'weights'}
    odict = [s_ for s_ in td.body if isinstance(s_, ast.Assign) and
             isinstance(s_.value, ast.Dict) and any(
                 isinstance(k, ast.Constant) and k.value == '__class__'
                 for k in s_.value.keys)]
    ctx.anchor(len(odict) == 1, 'dict literal of Simulation.to_dict')
    o = ast.unparse(odict[0].targets[0])
    # names bound to (parts of) the survey dict
    alias = {o}
    for a in ast.walk(td):
        if isinstance(a, ast.Assign) and isinstance(
                a.targets[0], ast.Name) and a is not odict[0] and \
                _root_name(a.value) in alias and "'survey'" in \
                ast.unparse(a.value):
            alias.add(a.targets[0].id)
    bad, n_del = [], 0
    for st in ast.walk(td):
        tgs = st.targets if isinstance(st, (ast.Assign, ast.Delete)) else \
            [st.target] if isinstance(st, ast.AugAssign) else []
        for t in tgs:
            txt = ast.unparse(t)
            if not (isinstance(t, ast.Subscript) and (
                    txt.startswith(f"{o}['survey']") or
                    (_root_name(t) in alias - {o}))):
                continue
            if isinstance(st, ast.Delete):
                k = t.slice
                lp = au.enclosing(st, ast.For)
                keys = [k.value] if isinstance(k, ast.Constant) else (
                    au.const_list(lp.iter) if lp is not None and isinstance(
                        k, ast.Name) and ast.unparse(lp.target) == k.id
                    else None)
                if keys and set(keys) <= derived:
                    n_del += 1
                    continue
            bad.append(st)
        if isinstance(st, ast.Call) and isinstance(st.func, ast.Attribute) \
                and st.func.attr in ('pop', 'clear', 'update', 'popitem') \
                and (ast.unparse(st.func.value).startswith(f"{o}['survey']")
                     or _root_name(st.func.value) in alias - {o}):
            bad.append(st)
    ctx.check(rule, "Simulation.to_dict: the survey keeps its own data sets",
              not bad and n_del >= 1,
              'to_dict changes the survey dictionary beyond deleting '
              f'{sorted(derived)}: data sets of the survey (user data, noise '
              'arrays) are lost in a plain copy / file',
              ctx.where(mod, bad[0] if bad else td))


def rule_OW5(ctx, mod, E):
    cp = E.members['copy']
    ret = [n for n in ast.walk(cp) if isinstance(n, ast.Return)]
    txt = ast.unparse(ret[-1].value).replace(' ', '') if ret else ''
    ctx.check('C12.OW5.copy', 'Simulation.copy',
              txt in ('self.from_dict(self.to_dict(what,True))',
                      'self.from_dict(self.to_dict(what,copy=True))'),
              f'copy() is `{txt}`; it must go through to_dict(copy=True)',
              ctx.where(mod, cp))
    td = E.members['to_dict']
    odict = [s_ for s_ in td.body if isinstance(s_, ast.Assign) and
             isinstance(s_.value, ast.Dict) and any(
                 isinstance(k, ast.Constant) and k.value == '__class__'
                 for k in s_.value.keys)]
    oname = ast.unparse(odict[0].targets[0]) if odict else 'out'
    tps = au.params(td)
    deep = [n for n in ast.walk(td) if isinstance(n, ast.Return) and
            ast.unparse(n.value) == f'deepcopy({oname})']
    ok = bool(deep) and any(ast.unparse(t) == tps[2] and pol for t, pol in
                            au.guards_of(deep[0], td))
    ctx.check('C12.OW5.copy', 'Simulation.to_dict(copy=True)', ok,
              'to_dict(copy=True) does not return a deep copy',
              ctx.where(mod, td))
    fd = E.members['from_dict']
    ctor = [c for c in au.calls(fd, 'cls') if any(
        k.arg is None for k in c.keywords)]
    ctx.anchor(len(ctor) == 1, 'cls(**kwargs) in Simulation.from_dict')
    X = [ast.unparse(k.value) for k in ctor[0].keywords if k.arg is None][0]
    cps = find(f"{X}['solver_opts'] = {X}['solver_opts'].copy()", fd)
    muts = [s_ for s_ in fd.body if isinstance(s_, ast.Assign) and
            ast.unparse(s_.targets[0]).replace('"', "'").startswith(
                f"{X}['solver_opts'][")]
    ok = len(cps) == 1 and all(cps[0][0].lineno < m.lineno for m in muts)
    ctx.check('C12.OW5.copy', 'Simulation.from_dict solver_opts', ok,
              'from_dict mutates the solver_opts dict of its input (shared '
              'with the original simulation)', ctx.where(mod, fd))
    # from_dict works on its own (shallow) copy of the dictionary: popping
    # from the caller's dictionary would empty it for the next from_dict
    p0 = au.params(fd)[1]
    rebind = [n for n in fd.body if isinstance(n, ast.Assign) and
              ast.unparse(n.targets[0]) == p0 and (
                  (isinstance(n.value, ast.DictComp) and ast.unparse(
                      n.value.generators[0].iter) == f'{p0}.items()') or
                  ast.unparse(n.value) in (f'dict({p0})', f'{p0}.copy()',
                                           f'{{**{p0}}}'))]
    first = min((n.lineno for n in rebind), default=None)
    muts_ = [c for c in ast.walk(fd) if isinstance(c, ast.Call) and
             isinstance(c.func, ast.Attribute) and c.func.attr in (
                 'pop', 'popitem', 'clear', 'update', 'setdefault') and
             ast.unparse(c.func.value) == p0]
    muts_ += [n for n in ast.walk(fd) if isinstance(n, (ast.Assign,
                                                        ast.Delete)) and any(
        isinstance(t, ast.Subscript) and ast.unparse(t.value) == p0
        for t in n.targets)]
    okc = all(first is not None and first < m_.lineno for m_ in muts_)
    ctx.check('C12.OW5.copy', "Simulation.from_dict leaves the caller's "
              'dictionary alone', okc, f'from_dict pops from / writes into '
              f'its input `{p0}` itself (no own copy first): the dictionary '
              'returned by to_dict is emptied by the first from_dict, a '
              'second simulation built from it silently falls back to the '
              'defaults', ctx.where(mod, muts_[0] if muts_ else fd))
    # survey / model copied via their own from_dict
    for k, c in (('survey', 'surveys.Survey.from_dict'),
                 ('model', 'models.Model.from_dict')):
        ctx.check('C12.OW5.copy', f'Simulation.from_dict {k}',
                  has(f"{X}['{k}'] = {c}({X}['{k}'])", fd),
                  f'{k} is not rebuilt through {c}', ctx.where(mod, fd))


def rule_OW5_roundtrip(ctx, mod, E, only=None):
    """Every input of the constructor travels through to_dict / from_dict:
    a copy (or a stored simulation) that silently falls back to the default
    of an option is not the simulation that was copied."""
    init, td, fd = (E.members[k] for k in ('__init__', 'to_dict',
                                           'from_dict'))
    kw = init.args.kwarg.arg if init.args.kwarg else None
    inputs = [a for a in au.params(init)[1:]]
    for c in au.calls(init):
        if kw and ast.unparse(c.func) == f'{kw}.pop' and c.args and \
                isinstance(c.args[0], ast.Constant):
            inputs.append(c.args[0].value)
    ctx.anchor(len(inputs) >= 10, 'constructor inputs of Simulation')
    odict = [s_ for s_ in td.body if isinstance(s_, ast.Assign) and
             isinstance(s_.value, ast.Dict) and any(
                 isinstance(k, ast.Constant) and k.value == '__class__'
                 for k in s_.value.keys)]
    ctx.anchor(len(odict) == 1, 'dict literal of Simulation.to_dict')
    emitted = {k.value: ast.unparse(v) for k, v in zip(
        odict[0].value.keys, odict[0].value.values)
        if isinstance(k, ast.Constant)}
    ctor = [c for c in au.calls(fd, 'cls') if any(
        k.arg is None for k in c.keywords)]
    ctx.anchor(len(ctor) == 1, 'cls(**kwargs) in Simulation.from_dict')
    X = [ast.unparse(k.value) for k in ctor[0].keywords if k.arg is None][0]
    consumed = set()
    for n in ast.walk(fd):
        if isinstance(n, ast.Assign):
            t = n.targets[0]
            if isinstance(t, ast.Subscript) and ast.unparse(t.value) == X \
                    and isinstance(t.slice, ast.Constant):
                consumed.add(t.slice.value)
            if ast.unparse(t) == X and isinstance(n.value, ast.DictComp):
                it = n.value.generators[0].iter
                lst = au.const_list(it)
                if lst is None and isinstance(it, ast.Name):
                    ds = [a for a in ast.walk(fd) if isinstance(
                        a, ast.Assign) and ast.unparse(a.targets[0]) == it.id]
                    lst = au.const_list(ds[0].value) if len(ds) == 1 else None
                consumed |= set(lst or [])
    for k in inputs:
        if only and k not in only:
            continue
        v = emitted.get(k)
        ctx.check('C12.OW5.roundtrip', f'Simulation input `{k}`',
                  v in (f'self.{k}', f'self._{k}', f'self.{k}.to_dict()')
                  and k in consumed,
                  f'constructor input `{k}` is written by to_dict as `{v}` '
                  f'and {"" if k in consumed else "not "}handed to the '
                  'constructor by from_dict: a copy / a re-loaded simulation '
                  'falls back to the default of this option',
                  ctx.where(mod, odict[0] if v is None else fd),
                  sample={'input': k, 'emitted': v})
    ctx.floor('C12.OW5.roundtrip', len(only) if only else 10)


def rule_OW6(ctx, mod, E):
    """`_computed = True` claims that every source-frequency pair has been
    computed: it may only be stored where that is established."""
    n = 0
    for name, fn in E.members.items():
        for st in ast.walk(fn):
            if isinstance(st, ast.Assign) and any(
                    ast.unparse(t) == 'self._computed' for t in st.targets) \
                    and ast.unparse(st.value) == 'True':
                n += 1
                gs = [(ast.unparse(t).replace(' ', ''), p)
                      for t, p in au.guards_of(st, fn)]
                ps = au.all_params(fn)
                sv = find("_s_ = kwargs.pop('source', None)", fn)
                fv = find("_f_ = kwargs.pop('frequency', None)", fn)
                full = False
                if sv and fv:
                    a_, b_ = sv[0][1]['_s_'], fv[0][1]['_f_']
                    full = any(p and t in (f'{a_}isNoneand{b_}isNone',
                                           f'{b_}isNoneand{a_}isNone')
                               for t, p in gs)
                ops = au.params(fn)
                not_obs = any((t == ops[1] and not p) for t, p in gs)
                ctx.check('C12.OW6.computed', f'Simulation.{name} '
                          f'`{au.stext(st)}`', name == 'compute' and full
                          and not_obs, f'`_computed = True` is stored under '
                          f'the guards {gs}: the flag (which lets misfit '
                          'skip the forward computation) must only be set '
                          'when all sources and frequencies were computed',
                          ctx.where(mod, st), sample={'guards': gs})
    ctx.floor('C12.OW6.computed', 1)
    # the full computation is selected by the same condition
    cp = E.members['compute']
    sv = find("_s_ = kwargs.pop('source', None)", cp)
    fv = find("_f_ = kwargs.pop('frequency', None)", cp)
    c_ = E.members['_compute']
    cpp = au.params(c_)
    ctx.check('C12.OW6.computed', 'compute: all pairs when no source/'
              'frequency is given', bool(sv) and bool(fv) and has(
                  f'self._compute([({sv[0][1]["_s_"]}, {fv[0][1]["_f_"]})])',
                  cp) and has(f'if not {cpp[1]}[0][0]:\n    {cpp[1]} = '
                              'self._srcfreq', c_),
              'compute() does not compute all pairs for source=None',
              ctx.where(mod, cp))


def _what_guard(test, pol, par, w):
    """Truth of one guard for what == w: True / False / None (unknown)."""
    if isinstance(test, ast.Compare) and len(test.ops) == 1 and \
            isinstance(test.left, ast.Name) and test.left.id == par:
        c = test.comparators[0]
        op = test.ops[0]
        if isinstance(c, ast.Constant):
            v = {ast.Eq: w == c.value, ast.NotEq: w != c.value}.get(type(op))
        else:
            lst = au.const_list(c)
            v = None if lst is None else {
                ast.In: w in lst, ast.NotIn: w not in lst}.get(type(op))
        if v is not None:
            return v if pol else not v
    return None


def rule_OW6_serial(ctx, mod, E):
    """The computed flag and the synthetic data travel together through
    to_dict/from_dict: a copy that is stripped of the synthetic data must not
    carry `computed = True` (misfit would skip the forward computation and
    sum NaNs to 0.0)."""
    td = E.members['to_dict']
    par = au.params(td)[1]
    dom = set()
    for n in ast.walk(td):
        if isinstance(n, ast.Compare) and isinstance(n.left, ast.Name) and \
                n.left.id == par:
            c = n.comparators[0]
            dom |= set([c.value] if isinstance(c, ast.Constant)
                       else au.const_list(c) or [])
    ctx.anchor({'plain', 'results', 'all', 'computed'} <= dom,
               'to_dict(what) domain')
    # where is the flag emitted / the synthetic data stripped
    emits, strips = [], []
    for n in ast.walk(td):
        if isinstance(n, ast.Dict):
            for k in n.keys:
                if isinstance(k, ast.Constant) and k.value == 'computed':
                    emits.append(n)
        if isinstance(n, ast.Assign) and any(
                isinstance(t, ast.Subscript) and isinstance(
                    t.slice, ast.Constant) and t.slice.value == 'computed'
                for t in n.targets):
            emits.append(n)
        if isinstance(n, ast.Delete):
            lp = au.enclosing(n, ast.For)
            keys = au.const_list(lp.iter) if lp is not None else None
            if keys and 'synthetic' in keys or "'synthetic'" in ast.unparse(n):
                strips.append(n)
    ctx.anchor(emits and strips, 'computed flag / synthetic strip in to_dict')

    def holds(node, w):
        vals = [_what_guard(t, pol, par, w)
                for t, pol in au.guards_of(node, td)]
        vals = [v for v in vals if v is not None]
        return all(vals)
    for w in sorted(dom):
        em = any(holds(n, w) for n in emits)
        st = any(holds(n, w) for n in strips)
        ctx.check('C12.OW6.serial', f"to_dict(what='{w}')", not (em and st),
                  f"to_dict('{w}') removes the synthetic data but keeps the "
                  'computed flag: the restored simulation returns misfit 0.0 '
                  'without computing', ctx.where(mod, td),
                  sample={'what': w, 'flag': em, 'synthetic_stripped': st})
    fd = E.members['from_dict']
    ok = has("if 'computed' in _x_.keys():\n    _o_._computed = "
             "_x_.pop('computed')", fd) or \
        has("_o_._computed = _x_.pop('computed', False)", fd)
    for lp, b_ in find("for _n_ in _L_:\n    if _n_ in _x_.keys():\n"
                       "        setattr(_o_, '_' + _n_, _x_.pop(_n_))", fd):
        L = b_['_L_']
        lst = None
        if L.isidentifier():
            defs = [n.value for n in ast.walk(fd) if isinstance(n, ast.Assign)
                    and ast.unparse(n.targets[0]) == L and
                    n.lineno < lp.lineno]
            lst = au.const_list(defs[-1]) if defs else None
        else:
            lst = au.const_list(ast.parse(L, mode='eval').body)
        if lst and 'computed' in lst:
            ok = True
    ctx.check('C12.OW6.serial', 'from_dict restores the flag only if stored',
              ok, 'from_dict does not restore `_computed` from the stored '
              'flag (default: not computed)', ctx.where(mod, fd))


def rule_OW5_files(ctx, mod, E):
    """Copies are independent of their original also in file-based mode: the
    field files of a simulation must not be those of its copy.  Either the
    file names carry something unique to the instance, or copy()/from_dict
    gives the copy another file_dir."""
    df = E.members['_data_or_file']
    ps = set(au.params(df))
    fs = [n for n in ast.walk(df) if isinstance(n, ast.JoinedStr)]
    ctx.anchor(len(fs) == 1, 'file-name f-string in _data_or_file')
    parts = {ast.unparse(v.value) for v in fs[0].values
             if isinstance(v, ast.FormattedValue)}
    unique = parts - ps
    td, fd = E.members['to_dict'], E.members['from_dict']
    keeps = has("{__: __, 'file_dir': self.file_dir}", td) or any(
        isinstance(dn, ast.Dict) and any(
            isinstance(k, ast.Constant) and k.value == 'file_dir' and
            ast.unparse(v) == 'self.file_dir'
            for k, v in zip(dn.keys, dn.values)) for dn in ast.walk(td))
    rebased = any('file_dir' in ast.unparse(n) for n in ast.walk(fd)
                  if isinstance(n, (ast.Assign, ast.Call)) and
                  ('mkdtemp' in ast.unparse(n) or 'uuid' in ast.unparse(n)))
    ctx.check('C12.OW5.files', 'file-based copy does not share field files',
              bool(unique) or not keeps or rebased,
              f'field files are named from {sorted(parts)} inside file_dir, '
              'and to_dict/from_dict hand the same file_dir to the copy: the '
              'copy reads, overwrites and (clean) deletes the files of its '
              'original', ctx.where(mod, df),
              sample={'name_parts': sorted(parts)})


def clean_resets(ctx, mod):
    """The values of `what` under which Simulation.clean resets the computed
    flag (read off the guards of `self._computed = False`)."""
    from ..core.tables import FiniteEval as _FE
    cl = mod.method('Simulation', 'clean')
    cpar = au.params(cl)[1]
    dom_, resets = set(), set()
    for n in ast.walk(cl):
        if isinstance(n, ast.Compare) and isinstance(n.left, ast.Name) and \
                n.left.id == cpar and au.const_list(n.comparators[0]):
            dom_ |= set(au.const_list(n.comparators[0]))
    for w in sorted(dom_):
        fe = _FE({cpar: w}, where=mod.rel)
        for st in ast.walk(cl):
            if isinstance(st, ast.Assign) and ast.unparse(st.targets[0]) == \
                    'self._computed' and ast.unparse(st.value) == 'False':
                if all(bool(fe.ev(t)) == pol
                       for t, pol in au.guards_of(st, cl)):
                    resets.add(w)
    return resets


def mode_switch(ctx, mod, rule):
    """Switching the computation mode of an existing simulation
    (`sim.layered = ...`) makes everything computed so far belong to the
    other mode: the setter has to drop it (else the misfit of the 3D run is
    reported for the layered data, and the layered gradient starts from the
    3D residual)."""
    setters = [m for m in mod.methods('Simulation', 'layered')
               if any(d.endswith('.setter') for d in au.decorator_names(m))]
    ctx.anchor(len(setters) == 1, 'Simulation.layered setter')
    st = setters[0]
    resets = clean_resets(ctx, mod)
    ctx.anchor(resets, 'Simulation.clean(what) resetting the computed flag')
    calls = [c for c in au.calls(st) if ast.unparse(c.func) == 'self.clean'
             and c.args and isinstance(c.args[0], ast.Constant) and
             c.args[0].value in resets]
    par = au.params(st)[1]
    ok = False
    for c in calls:
        gs = au.guards_of(c, st)
        # unguarded, or guarded only by "the mode really changes"
        if all({x.id for x in ast.walk(t) if isinstance(x, ast.Name)} <=
               {par, 'self'} for t, _ in gs):
            ok = True
    # ... and "really changes" compares the new value with the mode as it
    # was: nothing that stores `_layered` (the options helper does) may run
    # on a path before the comparison
    if ok:
        from ..core.cfg import CFG as _CFG
        cfg = _CFG(st)
        setters_ = set()
        for n_ in cfg.nodes:
            if n_.ast is None or n_.kind != 'stmt':
                continue
            txt_ = ast.unparse(n_.ast)
            if 'self._layered =' in txt_ or any(
                    ast.unparse(c_.func) == 'self._set_layered_opts'
                    for c_ in ast.walk(n_.ast) if isinstance(c_, ast.Call)):
                setters_.add(n_)
        tests_ = [n_ for n_ in cfg.nodes if n_.kind == 'test' and
                  '_layered' in ast.unparse(n_.ast)]
        for t_ in tests_:
            for s_ in setters_:
                if t_ in cfg.reachable_between(s_, t_):
                    ok = False
    ctx.check(rule, 'Simulation.layered setter drops the computed state',
              ok, 'the mode is switched while synthetic data, misfit, '
              'gradient and the computed flag of the other mode stay (no '
              'clean(), or the test "does the mode change" runs after the '
              'new mode was already stored)', ctx.where(mod, st))


def rule_OW8_shared_survey(ctx, mod, E):
    """A simulation keeps everything it derives (synthetic data, residual,
    weights) in `survey.data` of the survey OBJECT it was given: two
    simulations built on one survey overwrite each other's residual, and the
    lazy gradient of the first then back-propagates the residual of the
    second.  Independence needs either a private copy of the survey or
    derived items stored on the simulation."""
    init = E.members['__init__']
    spar = au.params(init)[1]
    by_ref = has(f'self.survey = {spar}', init)
    dprop = [m for m in mod.methods('Simulation', 'data')
             if 'property' in au.decorator_names(m)]
    alias = bool(dprop) and has('return self.survey.data', dprop[0])
    derived = any(isinstance(st, ast.Assign) and any(
        ast.unparse(t).replace('"', "'") == "self.data['residual']"
        for t in st.targets) for st in ast.walk(mod.cls('Simulation')))
    ctx.check('C12.OW8.survey', 'Simulation owns the data it derives',
              not (by_ref and alias and derived),
              'the survey is kept by reference and residual / weights / '
              'synthetic data are written into its Dataset: a second '
              'simulation on the same survey object replaces them, and the '
              'cached misfit of the first no longer matches the residual its '
              'gradient uses', ctx.where(mod, init))


def rule_OW7(ctx, mod, E):
    """Two data variables must never share memory: a store
    `data[a] = data[b]` (no copy) makes later in-place `.loc[...] =` writes of
    one overwrite the other."""
    n = 0
    for m in (mod, ctx.repo.mod('emg3d/surveys.py')):
        for st in ast.walk(m.tree):
            if not isinstance(st, ast.Assign):
                continue
            for t in st.targets:
                if not (isinstance(t, ast.Subscript) and
                        ast.unparse(t.value).split('.')[-1] in
                        ('data', '_data') and
                        ast.unparse(t.value).startswith('self')):
                    continue
                n += 1
                v = st.value
                bare = isinstance(v, (ast.Subscript, ast.Attribute)) and (
                    '.data' in ast.unparse(v) or '._data' in ast.unparse(v))
                ctx.check('C12.OW7.alias', f'{au.qualname(st)} '
                          f'`{au.stext(st)[:60]}`', not bare,
                          'a data variable is bound to another data variable '
                          'without a copy; the two share memory',
                          ctx.where(m, st))
    ctx.floor('C12.OW7.alias', 8)


def rule_new_state(ctx, rule, only=None):
    """Everything a Simulation remembers between calls is listed: inputs,
    and results that `clean()` resets.  An attribute the class did not have
    (not in the reference list sa/props/known_names.json) that is stored on
    `self` outside the constructor is NEW remembered state; unless clean()
    resets it, results start to depend on what was computed before (a flag
    evaluated once, a cached intermediate)."""
    from ..core import normal
    mod = ctx.repo.mod(SIMS)
    cls = mod.cls('Simulation')
    ref = normal.known().get(SIMS, {}).get('<attrs>', {}).get('Simulation')
    ctx.anchor(ref, 'reference attribute list of Simulation')
    clean = mod.method('Simulation', 'clean')
    ctext = ast.unparse(clean)
    n = 0
    for fn in cls.body:
        if not isinstance(fn, ast.FunctionDef) or fn.name == '__init__':
            continue
        if only and fn.name not in only:
            continue
        for st in ast.walk(fn):
            tgs = st.targets if isinstance(st, ast.Assign) else (
                [st.target] if isinstance(st, (ast.AugAssign,
                                               ast.AnnAssign)) else [])
            for t in tgs:
                for e in (t.elts if isinstance(t, (ast.Tuple, ast.List))
                          else [t]):
                    if isinstance(e, ast.Attribute) and isinstance(
                            e.value, ast.Name) and e.value.id == 'self' \
                            and e.attr not in ref:
                        n += 1
                        ok = f"'{e.attr}'" in ctext or \
                            f'self.{e.attr}' in ctext
                        ctx.check(rule, f'Simulation.{fn.name}: new '
                                  f'attribute `{e.attr}`', ok,
                                  f'`{au.stext(st)[:70]}` remembers a value '
                                  'on the simulation that clean() does not '
                                  'reset: later calls (after new observed '
                                  'data, a model update, clean) still use '
                                  'it, so results depend on the call '
                                  'history', ctx.where(mod, st))
    ctx.ok(rule, f'Simulation: remembered state is the listed state ({n} new '
           'attributes)', sample={'new_attributes': n,
                                  'reference': len(ref)})


def run(ctx):
    ctx.explanation = (
        'Effect analysis of class Simulation: item paths (data.synthetic/'
        'residual/weights/observed, _misfit, _gradient, field dictionaries) '
        'are classified as inputs or derived items with owners; per-method '
        'CFGs decide must-pass-through of restore/invalidate statements '
        'after non-owner stores and after cache fills; clean(), tolerance '
        'switches and copy paths are evaluated over their finite option '
        'domains.')
    ctx.assumptions = [
        'A8 xarray: ds[k] = v / del ds[k] / da[...] = v semantics',
        'ownership and dependency tables are frozen in the checker and '
        're-validated against computed read sets']
    mod = ctx.repo.mod(SIMS)
    E = Effects(ctx, mod)
    ctx.extra['read_sets'] = {k: sorted(v) for k, v in E.reads.items()
                              if k in ('misfit', 'gradient', '_bcompute',
                                       '_compute', 'jtvec', 'jvec')}
    for prop, (cache, extra) in CACHED.items():
        ctx.anchor(prop in E.members and cache in E.direct_w.get(prop, set()),
                   f'cached property {prop} owning {cache}')
    rule_OW1_OW2(ctx, mod, E)
    rule_OW3(ctx, mod, E)
    rule_OW4(ctx, mod, E)
    rule_OW5(ctx, mod, E)
    rule_OW5_roundtrip(ctx, mod, E)
    plain_strip(ctx, mod, E.members['to_dict'], 'C12.OW5.roundtrip')
    rule_OW6(ctx, mod, E)
    rule_OW6_serial(ctx, mod, E)
    rule_OW7(ctx, mod, E)
    rule_OW5_files(ctx, mod, E)
    rule_OW8_shared_survey(ctx, mod, E)
    mode_switch(ctx, mod, 'C12.OW3.mode')
    # the transient hand-over attribute of to_file is consumed by to_dict
    # (a leftover makes every later copy()/to_dict(what) use the old `what`)
    from . import c17
    from ..core.report import Renamed
    c17.rule_oneshot(Renamed(ctx, lambda r: 'C12.OW5.oneshot'))
    # saved and re-loaded data keep their labels (rule of C17, shared)
    from .c17 import h5_order
    h5_order(ctx, 'C12.OW5.h5order')
    rule_new_state(ctx, 'C12.OW9.state')
