"""C11 - results do not depend on worker count, scheduling or file mode.

Rules (DESIGN.md 4/C11):
  P1  every branch of process_map returns through an order-preserving map
  P2  each call site stores out[i] into the slot of the i-th task of the very
      iterable the task list was built from
  P3  file hand-over names are keyed by (what, source, frequency); the worker
      derives its output name from its input name; distinct `what` per site
  P4  workers write no module state and do not mutate shared task inputs
"""
import ast

from ..core import astutil as au
from ..core.effects import root_name, store_targets
from ..core.report import AnalysisError

LEVEL = 'other'
MP = 'emg3d/_multiprocessing.py'
SIMS = 'emg3d/simulations.py'
FORBIDDEN = ('as_completed', 'imap_unordered', 'imap', 'submit', 'apply_async',
             'sorted', 'reversed', 'shuffle', 'set', 'frozenset', 'wait')
ORDERED = ('map', 'tqdm.contrib.concurrent.process_map')


def rule_P1(ctx):
    mod = ctx.repo.mod(MP)
    fn = mod.func('process_map')
    ps = au.all_params(fn)
    rets = [n for n in ast.walk(fn) if isinstance(n, ast.Return)]
    for r in rets:
        txt = ast.unparse(r.value)
        names = {ast.unparse(c.func) for c in ast.walk(r.value)
                 if isinstance(c, ast.Call)}
        bad = [n for n in names if n.split('.')[-1] in FORBIDDEN]
        # the mapping primitive applied to (fn, *iterables)
        prim = [c for c in ast.walk(r.value) if isinstance(c, ast.Call) and (
            ast.unparse(c.func) in ORDERED or (
                isinstance(c.func, ast.Attribute) and c.func.attr == 'map'))
            and len(c.args) >= 2 and ast.unparse(c.args[0]) == ps[0] and
            isinstance(c.args[1], ast.Starred)]
        outer_ok = True
        # wrappers around the primitive may only be list(...) / tqdm(...)
        for c in ast.walk(r.value):
            if isinstance(c, ast.Call) and c not in prim:
                f = ast.unparse(c.func)
                if f not in ('list', 'tqdm.auto.tqdm', 'len'):
                    outer_ok = False
        ctx.check('C11.P1.ordered', f'process_map `return {txt[:60]}`',
                  len(prim) == 1 and not bad and outer_ok,
                  'this branch does not return the results of an '
                  'order-preserving map over (fn, *iterables)'
                  + (f' (uses {bad})' if bad else ''), ctx.where(mod, r),
                  sample={'return': txt[:100]})
    ctx.floor('C11.P1.ordered', 4)
    for n in ast.walk(fn):
        if isinstance(n, (ast.Name, ast.Attribute)):
            nm = n.id if isinstance(n, ast.Name) else n.attr
            if nm in ('as_completed', 'imap_unordered', 'submit'):
                ctx.fail('C11.P1.ordered', f'process_map uses {nm}',
                         'completion-ordered primitive in process_map',
                         ctx.where(mod, n))


def rule_P2(ctx, only=None, rid='C11.P2.slots'):
    mod = ctx.repo.mod(SIMS)
    cls = mod.cls('Simulation')
    sites = [c for c in au.calls(cls) if ast.unparse(c.func).endswith(
        'process_map')]
    whats = []
    for c in sites:
        fn = au.enclosing_func(c)
        while au.enclosing_func(fn) is not None and au.enclosing(
                fn, ast.ClassDef) is not au.parent(fn):
            fn = au.enclosing_func(fn)
        qn = au.qualname(fn)
        if only and not qn.endswith(only):
            continue
        st = au.enclosing_stmt(c)
        ctx.anchor(isinstance(st, ast.Assign) and isinstance(
            st.targets[0], ast.Name), f'out = process_map(...) in {qn}')
        out = st.targets[0].id
        where = ctx.where(mod, c)
        tasks = c.args[1] if len(c.args) > 1 else None
        tdef = None
        if isinstance(tasks, ast.Name):
            # task list bound to a local first: resolve its single definition
            ds = [n for n in ast.walk(fn) if isinstance(n, ast.Assign) and
                  any(ast.unparse(t) == tasks.id for t in n.targets)]
            if len(ds) == 1 and ds[0].lineno < c.lineno:
                tdef = ds[0]
                # hand-over point: in file-based mode the task is written to
                # disk when it is built; state changed between building the
                # tasks and starting the workers reaches only the in-memory
                # tasks (which alias it), not the files
                late = [n for n in ast.walk(fn)
                        if isinstance(n, (ast.Assign, ast.AugAssign)) and
                        tdef.lineno < n.lineno < st.lineno and any(
                            ast.unparse(t).startswith('self.')
                            for t in store_targets(n))]
                ctx.check(rid.replace('slots', 'handover'),
                          f'{qn}: nothing changes between task creation and '
                          'process_map', not late,
                          f'`{au.stext(late[0]) if late else ""}` runs after '
                          'the tasks were built (and, with file_dir, already '
                          'written to disk): sequential/in-memory and '
                          'file-based runs see different inputs',
                          ctx.where(mod, late[0] if late else c))
                tasks = tdef.value
        ok = (isinstance(tasks, ast.Call) and ast.unparse(tasks.func) == 'list'
              and isinstance(tasks.args[0], ast.Call) and
              ast.unparse(tasks.args[0].func) == 'map' and
              len(tasks.args[0].args) == 2)
        if not ok:
            ctx.fail(rid, f'{qn}: task list',
                     'task list is not list(map(builder, iterable))', where)
            continue
        S = ast.unparse(tasks.args[0].args[1])
        # loops consuming `out`
        loops = [n for n in ast.walk(fn) if isinstance(n, ast.For) and
                 n.lineno > c.lineno and any(
                     isinstance(x, ast.Name) and x.id == out
                     for x in ast.walk(n))]
        if not loops:
            ctx.fail(rid, f'{qn}: results unused',
                     'results of process_map are never stored', where)
            continue
        # no re-assignment of S between the call and the loops
        reass = [n for n in ast.walk(fn) if isinstance(n, ast.Assign) and
                 c.lineno < n.lineno <= max(l.lineno for l in loops) and any(
                     ast.unparse(t) == S for t in n.targets)]
        for lp in loops:
            it = lp.iter
            cons = f'{qn}: `for {ast.unparse(lp.target)} in ' \
                   f'{ast.unparse(it)[:50]}`'
            if ast.unparse(it) == out:
                # direct iteration: only accumulation into a local is allowed
                acc = all(isinstance(s, ast.AugAssign) and isinstance(
                    s.target, ast.Name) for s in lp.body)
                ctx.check(rid, cons, acc,
                          'results are consumed by plain iteration but not '
                          'merely accumulated', ctx.where(mod, lp),
                          sample={'site': qn, 'loop': 'accumulate'})
                continue
            good = (isinstance(it, ast.Call) and ast.unparse(it.func) ==
                    'enumerate' and len(it.args) == 1 and
                    isinstance(lp.target, ast.Tuple))
            if not good:
                ctx.fail(rid, cons, 'results are not consumed by '
                         '`for i, key in enumerate(iterable)`',
                         ctx.where(mod, lp))
                continue
            S2 = ast.unparse(it.args[0])
            idx = ast.unparse(lp.target.elts[0])
            keys = {x.id for x in ast.walk(lp.target.elts[1])
                    if isinstance(x, ast.Name)}
            problems = []
            if S2 != S:
                problems.append(f'tasks built from `{S}` but slots '
                                f'enumerated from `{S2}`')
            if reass:
                problems.append(f'`{S}` re-assigned between task creation '
                                'and result storage')
            for x in ast.walk(lp):
                if isinstance(x, ast.Subscript) and isinstance(
                        x.value, ast.Name) and x.value.id == out:
                    if ast.unparse(x.slice) != idx:
                        problems.append(f'`{ast.unparse(x)}` is not indexed '
                                        f'by the loop counter `{idx}`')
            for s in ast.walk(lp):
                if isinstance(s, (ast.Assign, ast.AugAssign)):
                    for t in store_targets(s):
                        if isinstance(t, ast.Subscript):
                            used = {y.id for y in ast.walk(t)
                                    if isinstance(y, ast.Name)}
                            sl_names = set()
                            node = t
                            while isinstance(node, (ast.Subscript,
                                                    ast.Attribute)):
                                if isinstance(node, ast.Subscript):
                                    sl_names |= {
                                        y.id for y in ast.walk(node.slice)
                                        if isinstance(y, ast.Name)}
                                node = node.value
                            if not (sl_names & keys) or (
                                    sl_names - keys - {idx}):
                                problems.append(
                                    f'`{ast.unparse(t)}` is not keyed by the '
                                    f'loop keys {sorted(keys)}')
            # every slot takes the result of its task on every run: a store
            # of `out[i]...` under a condition keeps whatever the slot held
            # (with worker processes the task worked on a copy)
            for s in ast.walk(lp):
                if isinstance(s, (ast.Assign, ast.AugAssign)) and any(
                        isinstance(x, ast.Name) and x.id == out
                        for x in ast.walk(s.value)):
                    gs = au.guards_of(s, lp)
                    if gs:
                        problems.append(
                            f'`{au.stext(s)[:60]}` only under '
                            f'`{ast.unparse(gs[0][0])}`: the slot keeps its '
                            'old content otherwise')
            ctx.check(rid, cons, not problems,
                      '; '.join(problems), ctx.where(mod, lp),
                      sample={'site': qn, 'tasks_from': S, 'slots_from': S2})
        if only:
            continue
        # builder: what literal
        b = ast.unparse(tasks.args[0].args[0])
        # (the builder is a closure of the site or a method of the class)
        builders = [d for d in ast.walk(fn) if isinstance(d, ast.FunctionDef)
                    and d.name == b]
        if not builders and b.startswith('self.'):
            builders = [d for d in cls.body if isinstance(d, ast.FunctionDef)
                        and d.name == b[5:]]
        for d in builders:
            if True:
                for k in au.calls(d, 'self._data_or_file'):
                    if k.args and isinstance(k.args[0], ast.Constant):
                        whats.append((qn, k.args[0].value, k))
                        # key arguments are the builder's own (source, freq)
                        a = [ast.unparse(x) for x in k.args[1:3]]
                        tgt = [s for s in d.body if isinstance(s, ast.Assign)
                               and isinstance(s.targets[0], ast.Tuple)]
                        ok = bool(tgt) and a == [ast.unparse(e) for e in
                                                 tgt[0].targets[0].elts]
                        ctx.check('C11.P3.names', f'{qn}: hand-over key of '
                                  f'`{k.args[0].value}`', ok,
                                  'file name is not keyed by the task\'s own '
                                  '(source, frequency)', ctx.where(mod, k))
    if only:
        ctx.floor(rid, 1)
        return
    ctx.floor('C11.P2.slots', 4)
    ws = [w for _, w, _ in whats]
    ctx.check('C11.P3.names', 'distinct hand-over prefixes', len(ws) ==
              len(set(ws)) and len(ws) >= 3, f'hand-over prefixes {ws} are '
              'not distinct per call site (tasks would overwrite each '
              'other\'s files)', ctx.where(mod, cls), sample={'whats': ws})
    # _data_or_file
    f = mod.method('Simulation', '_data_or_file')
    ps = au.params(f)
    js = [n for n in ast.walk(f) if isinstance(n, ast.JoinedStr)]
    ctx.anchor(len(js) >= 1, 'f-string file name in _data_or_file')
    used = {ast.unparse(v.value) for v in js[0].values
            if isinstance(v, ast.FormattedValue)}
    ctx.check('C11.P3.names', '_data_or_file name', set(ps[1:4]) <= used,
              f'file name uses {sorted(used)}; all of {ps[1:4]} are needed '
              'to keep tasks apart', ctx.where(mod, js[0]),
              sample={'fields': sorted(used)})


def rule_P3_worker(ctx):
    mod = ctx.repo.mod(MP)
    fn = mod.func('solve')
    p = au.params(fn)[0]
    saves0 = au.calls(fn, 'io.save')
    ctx.anchor(len(saves0) == 1 and isinstance(saves0[0].args[0], ast.Name),
               'io.save(<name>, ...) in _multiprocessing.solve')
    fvar = saves0[0].args[0].id
    fname = [n for n in ast.walk(fn) if isinstance(n, ast.Assign) and
             ast.unparse(n.targets[0]) == fvar and not isinstance(
                 n.value, ast.Constant)]
    ctx.anchor(len(fname) == 1, 'output file name in _multiprocessing.solve')
    names = {x.id for x in ast.walk(fname[0].value) if isinstance(x, ast.Name)}
    ctx.check('C11.P3.names', '_mp.solve output name', names == {p} and
              '_out' in ast.unparse(fname[0].value),
              'output file name is not derived from the input file name '
              'alone', ctx.where(mod, fname[0]))
    # what is saved is what was computed in this call
    saves = au.calls(fn, 'io.save')
    ctx.anchor(len(saves) == 1, 'io.save in _multiprocessing.solve')
    kws = {k.arg: ast.unparse(k.value) for k in saves[0].keywords}
    res = [n for n in ast.walk(fn) if isinstance(n, ast.Assign) and
           isinstance(n.targets[0], ast.Tuple) and isinstance(
               n.value, ast.Call) and ast.unparse(n.value.func) in (
                   'fct', 'solver.solve') or (
               isinstance(n, ast.Assign) and isinstance(
                   n.targets[0], ast.Tuple) and isinstance(
                       n.value, ast.Call) and n.value.keywords and
               n.value.keywords[-1].arg is None)]
    ef_, inf_ = ('efield', 'info')
    if res:
        ef_, inf_ = (ast.unparse(e) for e in res[0].targets[0].elts)
    ctx.check('C11.P3.names', '_mp.solve saves its own result',
              kws.get('efield') == ef_ and kws.get('info') == inf_ and
              ast.unparse(saves[0].args[0]) == fvar,
              'worker does not save (efield, info) under its output name',
              ctx.where(mod, saves[0]))


def rule_P4(ctx):
    mod = ctx.repo.mod(MP)
    modnames = set()
    for n in mod.tree.body:
        if isinstance(n, (ast.Import, ast.ImportFrom)):
            for a in n.names:
                modnames.add((a.asname or a.name).split('.')[0])
        elif isinstance(n, (ast.FunctionDef, ast.ClassDef)):
            modnames.add(n.name)
        elif isinstance(n, ast.Assign):
            for t in n.targets:
                if isinstance(t, ast.Name):
                    modnames.add(t.id)
        elif isinstance(n, ast.Try):
            for s in ast.walk(n):
                if isinstance(s, (ast.Import, ast.ImportFrom)):
                    for a in s.names:
                        modnames.add((a.asname or a.name).split('.')[0])
                elif isinstance(s, ast.Assign):
                    for t in s.targets:
                        if isinstance(t, ast.Name):
                            modnames.add(t.id)
    workers = ['solve', 'layered', '_empymod_fwd', '_get_points',
               '_fd_gradient']
    n_st = 0
    for w in workers:
        fn = mod.func(w)
        ps = set(au.params(fn))
        for st in ast.walk(fn):
            if isinstance(st, ast.Global):
                ctx.fail('C11.P4.purity', f'{w} `{au.stext(st)}`',
                         'worker declares module-level state',
                         ctx.where(mod, st))
            if not isinstance(st, (ast.Assign, ast.AugAssign, ast.Delete)):
                continue
            for t in store_targets(st):
                if not isinstance(t, (ast.Attribute, ast.Subscript)):
                    continue
                n_st += 1
                r = root_name(t)
                if r in modnames and r not in ps:
                    ctx.fail('C11.P4.purity', f'{w} `{au.stext(st)}`',
                             f'worker writes module-level state `{r}` '
                             '(differs between processes)', ctx.where(mod, st))
                elif r in ps:
                    # task dict entries may be set; nothing reachable from
                    # shared inputs (model, solver_opts, ...) may be mutated
                    ok = isinstance(t, ast.Subscript) and isinstance(
                        t.value, ast.Name)
                    ctx.check('C11.P4.purity', f'{w} `{au.stext(st)}`', ok,
                              'worker mutates an object reachable from its '
                              'task input (shared between tasks in sequential '
                              'mode, copied in parallel mode)',
                              ctx.where(mod, st))
    ctx.ok('C11.P4.purity', f'{len(workers)} worker functions, {n_st} '
           'attribute/subscript stores examined', sample={'workers': workers})
    # the only module-level write is the call counter of process_map
    pm = mod.func('process_map')
    for st in ast.walk(pm):
        if isinstance(st, (ast.Assign, ast.AugAssign)):
            for t in store_targets(st):
                if isinstance(t, ast.Attribute) and root_name(t) in modnames:
                    ctx.check('C11.P4.purity', f'process_map '
                              f'`{au.stext(st)}`', ast.unparse(t) ==
                              'process_map.count', 'process_map writes module '
                              'state other than its call counter',
                              ctx.where(mod, st))
    # solver options are copied into the solver input, not shared
    fn = mod.func('solve')
    si = [n for n in ast.walk(fn) if isinstance(n, ast.Assign) and
          isinstance(n.value, ast.Dict) and n.value.keys and
          n.value.keys[0] is None and 'solver_opts' in
          ast.unparse(n.value.values[0])]
    ctx.anchor(len(si) == 2, 'solver_input construction in _mp.solve')
    for n in si:
        ok = isinstance(n.value, ast.Dict) and n.value.keys[0] is None and \
            'solver_opts' in ast.unparse(n.value.values[0])
        ctx.check('C11.P4.purity', f'_mp.solve `{au.stext(n)[:50]}`', ok,
                  'solver options are not unpacked into a fresh dict',
                  ctx.where(mod, n))


def rule_P3_injective(ctx):
    """Two different tasks must never get the same file: the file name is a
    function of (what, source key, frequency key) that has to be injective.
    Joining free-form keys with a character that may occur in the keys
    (`S1` + `lo_f` and `S1_lo` + `f`) is not."""
    mod = ctx.repo.mod(SIMS)
    df = mod.method('Simulation', '_data_or_file')
    joins = [c for c in au.calls(df) if ast.unparse(c.func) ==
             'os.path.join' and len(c.args) >= 2]
    ctx.anchor(len(joins) == 1, 'os.path.join(file_dir, <name>) in '
               '_data_or_file')
    ps_ = set(au.params(df)[1:])

    def flat(e):
        """Parts of an f-string with nested f-strings spliced in (None if
        the expression is not a plain f-string of names)."""
        if isinstance(e, ast.Constant) and isinstance(e.value, str):
            return [e]
        if not isinstance(e, ast.JoinedStr):
            return None
        out = []
        for p_ in e.values:
            if isinstance(p_, ast.FormattedValue) and isinstance(
                    p_.value, (ast.JoinedStr,)):
                sub = flat(p_.value)
                if sub is None:
                    return None
                out.extend(sub)
            else:
                out.append(p_)
        return out
    vals = au.values_of(joins[0].args[-1], [df])
    flats = [flat(v_) for v_ in vals]
    verbatim = all(f_ is not None and all(
        isinstance(p_, ast.Constant) or (isinstance(p_.value, ast.Name) and
                                         p_.value.id in ps_ and
                                         p_.conversion == -1 and
                                         p_.format_spec is None)
        for p_ in f_) for f_ in flats)
    ctx.check('C11.P3.names', 'file name contains the keys unchanged',
              verbatim, 'the file name is not simply made of what / source '
              f'/ frequency (`{ast.unparse(vals[0])[:70]}`): keys that are '
              'altered on the way (characters dropped or replaced, '
              'truncated, lower-cased) can coincide for different tasks, '
              'which then share one input and one output file',
              ctx.where(mod, joins[0]))
    fs = [ast.JoinedStr(flats[0])] if flats and flats[0] else [
        n for n in ast.walk(df) if isinstance(n, ast.JoinedStr)]
    ctx.anchor(len(fs) >= 1, 'file-name f-string in _data_or_file')
    parts = fs[0].values
    seps = [p.value for p in parts if isinstance(p, ast.Constant)]
    nvar = sum(isinstance(p, ast.FormattedValue) for p in parts)
    # keys are validated somewhere against the separator?
    su = ctx.repo.mod('emg3d/surveys.py')
    validated = any(isinstance(n, ast.Raise) and ("'_'" in ast.unparse(
        au.enclosing(n, ast.If).test if au.enclosing(n, ast.If) else n))
        for n in ast.walk(su.tree))
    indexed = all(isinstance(p.value, ast.Call) or 'index' in ast.unparse(
        p.value) for p in parts if isinstance(p, ast.FormattedValue))
    ctx.check('C11.P3.names', 'file names are injective in (source, '
              'frequency)', validated or indexed or nvar < 3,
              f'names are built as {ast.unparse(fs[0])} from user-chosen keys '
              f'joined by {seps[:2]}: different (source, frequency) pairs can '
              'give the same file, so one slot receives the result of '
              'another task', ctx.where(mod, fs[0]))


def rule_P4_inputs(ctx):
    """Source and grid objects are shared by all tasks of a sequential run
    and re-created per task in worker processes / file mode: a function of
    the task path that stores something ON them (a cache) makes the modes
    differ.  get_source_field and the vector builders must not write
    attributes of their grid / source / coordinates arguments."""
    fm = ctx.repo.mod('emg3d/fields.py')
    n = 0
    for name in ('get_source_field', '_point_vector', '_dipole_vector',
                 '_point_vector_magnetic', 'get_receiver',
                 'get_magnetic_field'):
        fn = fm.func(name)
        ps = set(au.params(fn)) | {a.arg for a in fn.args.kwonlyargs}
        # parameters re-bound to a fresh local object are no longer inputs
        for st in au.walk_local(fn):
            if not isinstance(st, (ast.Assign, ast.AugAssign)):
                continue
            for t in store_targets(st):
                if isinstance(t, ast.Attribute) and root_name(t) in ps:
                    n += 1
                    ctx.check('C11.P4.purity', f'{name} `{au.stext(st)[:50]}`',
                              False,
                              f'stores an attribute on its argument '
                              f'`{root_name(t)}`: the object is shared by the '
                              'tasks of a sequential run but re-created for '
                              'worker processes and files, so results depend '
                              'on the execution mode', ctx.where(fm, st))
    ctx.ok('C11.P4.purity', 'fields.py task functions: attribute stores on '
           f'arguments ({n} found)', sample={'stores_on_arguments': n})


def _identity_tests(tree):
    """`a is b` / `a is not b` between two objects (neither side one of the
    singletons None / True / False / ...)."""
    out = []
    for n in ast.walk(tree):
        if not isinstance(n, ast.Compare):
            continue
        left = n.left
        for op, c in zip(n.ops, n.comparators):
            if isinstance(op, (ast.Is, ast.IsNot)) and not any(
                    isinstance(x, ast.Constant) and (
                        x.value is None or x.value is True or
                        x.value is False or x.value is Ellipsis)
                    for x in (left, c)):
                out.append(n)
            left = c
    return out


def rule_P3_load(ctx):
    """In file-based mode the per-task files are re-written by every run
    under the same names: what `_load` returns for a file name has to be
    read from the file in THAT call (a remembered copy is the result of an
    earlier run)."""
    mod = ctx.repo.mod(SIMS)
    ld = mod.method('Simulation', '_load')
    rets = [r for r in au.walk_local(ld) if isinstance(r, ast.Return)]
    ctx.anchor(rets, 'returns of Simulation._load')
    reads = [x for x in ast.walk(ld) if isinstance(x, ast.Attribute) and
             isinstance(x.value, ast.Name) and x.value.id == 'self' and
             x.attr != 'file_dir']
    stores = [x for x in reads if isinstance(x.ctx, ast.Store)]
    subs = [x for x in ast.walk(ld) if isinstance(x, ast.Subscript) and any(
        y in reads for y in ast.walk(x.value))]
    ok = not stores and not subs and any(
        'io.load' in ast.unparse(v_) for r in rets if r.value is not None
        for v_ in au.values_of(r.value, [ld]))
    ctx.check('C11.P3.names', 'Simulation._load reads the file on every '
              'call', ok, '_load keeps / looks up loaded content on the '
              'simulation: the output files of the tasks are re-written '
              'under the same names by every jvec / jtvec / gradient, so a '
              'remembered copy is the result of an earlier run (file-based '
              'and in-memory results differ)', ctx.where(mod, ld))


def rule_P4_identity(ctx):
    """Object identity is the one thing that differs between the modes:
    fields, grids and models that come back from a worker process or a file
    are equal copies, those of a sequential in-memory run are the very
    objects.  A decision of the task path taken by `is` between two objects
    therefore depends on how the previous run was executed."""
    # the matcher itself (expected count on the tree is zero)
    probe = ast.parse('if a.grid is not g and b is None and c is not True:\n'
                      '    pass')
    ctx.anchor(len(_identity_tests(probe)) == 1, 'identity-test matcher')
    n = 0
    for rel, scope in ((SIMS, 'Simulation'), (MP, None),
                       ('emg3d/fields.py', None), ('emg3d/solver.py', None),
                       ('emg3d/models.py', None), ('emg3d/maps.py', None)):
        mod = ctx.repo.mod(rel)
        tree = mod.cls(scope) if scope else mod.tree
        for t in _identity_tests(tree):
            n += 1
            ctx.check('C11.P4.purity', f'{rel}: `{ast.unparse(t)[:60]}`',
                      False, 'decision by object identity: equal objects '
                      'that went through a worker process or a file are '
                      'different objects, so sequential, parallel and '
                      'file-based runs take different branches',
                      ctx.where(mod, t))
    ctx.ok('C11.P4.purity', 'task path: decisions by object identity '
           f'({n} found)', sample={'identity_tests': n})


def run(ctx):
    ctx.explanation = (
        'Order/slot discipline is decided on the AST: return expressions of '
        'process_map are matched against order-preserving primitives; at '
        'each call site the iterable of the task list and of the storing '
        'loop must be the same expression with out[i] read by the loop '
        'counter and slots keyed by the loop keys; file names and worker '
        'effects are read off the source.')
    ctx.assumptions = ['A6 map, Executor.map and tqdm process_map return '
                       'results in input order',
                       'bit-identity of floating-point results across '
                       'processes is not decided']
    rule_P1(ctx)
    rule_P2(ctx)
    rule_P3_worker(ctx)
    rule_P4(ctx)
    rule_P4_inputs(ctx)
    rule_P4_identity(ctx)
    rule_P3_load(ctx)
    rule_P3_injective(ctx)
