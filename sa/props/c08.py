"""C08 - sensitivity products (case / chain tables only).

Rules (DESIGN.md 4/C08):
  V1  jvec: derivative_chain pairing per anisotropy case (position of the y/z
      part of the model vector)
  V2  jvec: assembly of the (x, y, z) conductivity vector per case
  V3  jvec works on a copy of the caller's vector; source field -s mu0 * dA v
      handed over with efield=None and the gradient tolerance
  V4  jvec results stored by position; jtvec divides by exactly the weights
      that _get_rfield multiplies back and goes through the gradient machinery
"""
import ast

from ..core import astutil as au
from ..core.report import AnalysisError
from ..core.tables import FiniteEval
from .c07 import CASES, eval_guards
from ..core.template import find, has, require

LEVEL = 'other'
SIMS = 'emg3d/simulations.py'


def signed_frequency(ctx, rule):
    """Nowhere in the computation modules is a Field built from the public
    `.frequency` (= abs value) of another field: the sign carries the domain
    (negative = Laplace)."""
    n = 0
    for rel in ('emg3d/simulations.py', 'emg3d/fields.py', 'emg3d/solver.py',
                'emg3d/_multiprocessing.py', 'emg3d/maps.py'):
        mod = ctx.repo.mod(rel)
        for c in au.calls(mod.tree):
            f = ast.unparse(c.func)
            if not (f.endswith('Field') or f.endswith('get_source_field')
                    or f.endswith('.get_field')):
                continue
            for k in c.keywords:
                if k.arg == 'frequency':
                    n += 1
                    bad = isinstance(k.value, ast.Attribute) and \
                        k.value.attr == 'frequency'
                    ctx.check(rule, f'{au.qualname(c)} `{f}(.., frequency='
                              f'{ast.unparse(k.value)})`', not bad,
                              'a field / source field is created with the '
                              'absolute frequency of another field; the '
                              'Laplace domain (negative value) is lost',
                              ctx.where(mod, c))
    ctx.need(n >= 5, f'only {n} field constructions with a frequency found')


def run(ctx):
    ctx.explanation = (
        'The case-dependent decision code of jvec is evaluated over the four '
        'anisotropy cases (finite domain) and compared with the layout of '
        'the model vector (x, [y], [z]); hand-over and weight round trip are '
        'read off the AST.  J v as a derivative and adjointness through the '
        'solves are not decided.')
    ctx.assumptions = ['numerical adjointness is not decided',
                       'discretize.get_edge_inner_product_deriv is the '
                       'derivative of the edge inner product (third party)']
    sm = ctx.repo.mod(SIMS)
    jv = sm.method('Simulation', 'jvec')
    ps = au.params(jv)
    v = ps[1]
    # bound-method aliases (`chain = self.model.map.derivative_chain`)
    alias = {ast.unparse(n.targets[0]) for n in ast.walk(jv)
             if isinstance(n, ast.Assign) and isinstance(
                 n.value, ast.Attribute) and
             n.value.attr == 'derivative_chain'}
    chains = [c for c in au.calls(jv) if ast.unparse(c.func).endswith(
        '.derivative_chain') or ast.unparse(c.func) in alias]
    ctx.anchor(len(chains) == 3, 'three derivative_chain calls in jvec')
    # the chain rule works IN PLACE on the vector: once per jvec call, not
    # once per source/frequency pair (a loop or the per-task builder would
    # multiply the derivative in again for every task)
    rep = [c for c in chains if any(isinstance(a, (
        ast.For, ast.While, ast.FunctionDef, ast.Lambda, ast.ListComp,
        ast.GeneratorExp)) for a in au.ancestors(c, jv))]
    ctx.check('C08.V1.chain', 'jvec applies the chain rule once',
              not rep, 'derivative_chain modifies the vector in place and is '
              'called inside a loop / the per-task builder: for the n-th '
              '(source, frequency) pair the derivative of the mapping is '
              'applied n times', ctx.where(sm, rep[0] if rep else jv))
    idxnames = set()
    for c in chains:
        ix = c.args[0].slice.elts[0] if isinstance(
            c.args[0], ast.Subscript) and isinstance(
                c.args[0].slice, ast.Tuple) else None
        if isinstance(ix, ast.Name):
            idxnames.add(ix.id)
    nname = sorted(idxnames)[0] if idxnames else 'n'
    nassign = [n for n in ast.walk(jv) if isinstance(n, ast.Assign) and
               ast.unparse(n.targets[0]) == nname]
    for case, (hy, hz) in CASES.items():
        env = {'self.model.case': case}
        got = []
        for c in chains:
            if not eval_guards(c, jv, env, sm.rel):
                continue
            idx = ast.unparse(c.args[0]).split('[')[1].split(',')[0].strip()
            if idx == nname:
                fe = FiniteEval(env, where=sm.rel)
                live = [a_ for a_ in nassign
                        if eval_guards(a_, jv, env, sm.rel)]
                ctx.anchor(len(live) == 1, 'index n of the z part')
                idx = fe.ev(live[0].value)
            got.append((int(idx) % (1 + hy + hz), ast.unparse(c.args[1])))
        want = [(0, 'self.model.property_x')]
        if hy:
            want.append((1, 'self.model.property_y'))
        if hz:
            want.append((1 + hy, 'self.model.property_z'))
        ctx.check('C08.V1.chain', f'jvec chain rule for case {case}',
                  sorted(got) == sorted(want),
                  f'derivative_chain pairs {sorted(got)}; the model vector '
                  f'of case {case} is laid out as {sorted(want)}',
                  ctx.where(sm, jv), sample={'case': case,
                                             'pairs': sorted(got)})
    ctx.floor('C08.V1.chain', 4)
    # V2: cvector assembly
    inner = [n for n in ast.walk(jv) if isinstance(n, ast.FunctionDef) and
             n is not jv]
    ctx.anchor(len(inner) == 1, 'task builder inside jvec')
    cb = inner[0]
    gv0 = find('_g_ = _e_.grid.get_edge_inner_product_deriv(np.ones('
               '_e_.grid.n_cells * _nc_))(_e_.field) * _cv_', cb)
    ctx.anchor(len(gv0) == 1, 'inner-product derivative in the jvec builder')
    CV, NC = gv0[0][1]['_cv_'], gv0[0][1]['_nc_']
    cv_all = [n for n in ast.walk(cb) if isinstance(n, ast.Assign) and
              ast.unparse(n.targets[0]) == CV]
    # bindings of the vector: the interpolation onto the grid of THIS pair,
    # and the per-case assembly from that vector; anything else (a value
    # looked up in a table, a value remembered from another pair) is not the
    # model vector on this pair's grid
    cv = [n for n in cv_all if any(isinstance(x, ast.Name) and x.id == CV
                                   for x in ast.walk(n.value))]
    other = [n for n in cv_all if n not in cv and not (
        isinstance(n.value, (ast.ListComp, ast.Call)) and
        'maps.interpolate' in ast.unparse(n.value))]
    ctx.check('C08.V3.source', 'jvec: vector on the computational grid is '
              'computed for this pair', not other,
              f'`{au.stext(other[0]) if other else ""}`: the vector that '
              'multiplies the forward field is not the interpolation of the '
              'input vector onto the grid of this source-frequency pair (it '
              'is looked up / remembered): pairs with different grids get '
              'the vector of another grid',
              ctx.where(sm, other[0] if other else cb))
    nc = [n for n in ast.walk(cb) if isinstance(n, ast.Assign) and
          ast.unparse(n.targets[0]) == NC]
    for case, (hy, hz) in CASES.items():
        env = {'self.model.case': case}
        act = [n for n in cv if eval_guards(n, cb, env, sm.rel)]
        actn = [n for n in nc if eval_guards(n, cb, env, sm.rel)]
        ctx.anchor(len(act) == 1 and len(actn) == 1,
                   f'cvector / ncase assignment for case {case}')
        txt = ast.unparse(act[0].value).replace(' ', '')
        ncase = ast.literal_eval(actn[0].value)
        if case == 'isotropic':
            want, wn = [f'{CV}[0]'], 1
        else:
            comps = [f'{CV}[0]', f'{CV}[1]' if hy else f'{CV}[0]',
                     f'{CV}[{1 + hy}]' if hz else f'{CV}[0]']
            want, wn = comps, 3
        if case == 'triaxial':
            ok = txt in (f'np.r_[{CV}].ravel()',
                         f'np.r_[{CV}[0],{CV}[1],{CV}[2]]')
        elif case == 'isotropic':
            ok = txt == f'{CV}[0]'
        else:
            ok = txt == 'np.r_[' + ','.join(want) + ']'
        ctx.check('C08.V2.cvector', f'jvec conductivity vector for case '
                  f'{case}', ok and ncase == wn,
                  f'case {case}: vector `{txt}` with ncase={ncase}; the '
                  f'(x, y, z) parts must be {want} (ncase={wn})',
                  ctx.where(sm, act[0]), sample={'case': case, 'vector': txt})
    ctx.floor('C08.V2.cvector', 4)
    # V3: copy, source field, hand-over
    copies = [n for n in ast.walk(jv) if isinstance(n, ast.Assign) and
              ast.unparse(n.targets[0]) == v]
    ok = len(copies) == 2 and all(ast.unparse(n.value).endswith('.copy()')
                                  for n in copies) and all(
        n.lineno < chains[0].lineno for n in copies)
    ctx.check('C08.V3.copy', 'jvec works on a copy of the input vector', ok,
              'the chain rule is applied in place to the caller\'s vector',
              ctx.where(sm, jv))
    ef = find("_e_ = self._dict_get('efield', _s_, _f_)", cb)
    ctx.anchor(len(ef) == 1, 'forward field in the jvec task builder')
    e = ef[0][1]['_e_']
    io = find("_o_ = {'method': 'volume', 'extrapolate': True, 'log': False,"
              " 'grid': self.model.grid}", jv)
    cvl = find(f'_c_ = [maps.interpolate(values=_q_, xi={e}.grid, **_o_)'
               f".ravel('F') for _q_ in {v}[:, ...]]", cb,
               {'_o_': io[0][1]['_o_']} if io else None)
    ctx.check('C08.V3.source', 'jvec interpolates the vector to the '
              'computational grid', len(io) == 1 and len(cvl) == 1,
              'model vector is not volume-averaged (linear) from the model '
              'grid to the computational grid', ctx.where(sm, cb))
    gv = find(f'_g_ = {e}.grid.get_edge_inner_product_deriv(np.ones('
              f'{e}.grid.n_cells * {NC}))({e}.field) * {CV}', cb)
    ctx.check('C08.V3.source', 'jvec inner-product derivative times vector',
              len(gv) == 1, 'edge inner-product derivative is not applied to '
              'the forward field and multiplied by the conductivity vector',
              ctx.where(sm, cb))
    gf = find(f'_gf_ = fields.Field(grid={e}.grid, data=-{e}.smu0 * _g_, '
              f'frequency=_fq_)', cb,
              {'_g_': gv[0][1]['_g_']} if gv else None)
    ctx.check('C08.V3.source', 'jvec source field', len(gf) == 1,
              'the source of the sensitivity solve is not -s mu0 (dA/dm v) E '
              'on the grid of the forward field', ctx.where(sm, cb))
    # ... in the SAME domain as the forward field: the signed frequency
    # (`_frequency`; negative = Laplace), not the public absolute value
    ctx.check('C08.V3.source', 'jvec source field keeps the sign of the '
              'frequency', len(gf) == 1 and gf[0][1]['_fq_'] ==
              f'{e}._frequency', 'the sensitivity system is assembled with '
              f'frequency=`{gf[0][1]["_fq_"] if gf else "?"}`: the public '
              '`frequency` of a field is the absolute value, so a '
              'Laplace-domain survey (negative frequency) is solved as a '
              'frequency-domain problem', ctx.where(sm, cb))
    signed_frequency(ctx, 'C08.V3.source')
    ho = find("_d_ = {'model': self.model, 'sfield': _gf_, 'efield': None, "
              "'solver_opts': self.solver_opts}", cb,
              {'_gf_': gf[0][1]['_gf_']} if gf else None)
    ok = len(ho) == 1 and has(
        f"{ho[0][1]['_d_']}['solver_opts']['tol'] = self.tol_gradient", cb)
    ctx.check('C08.V3.source', 'jvec hand-over', ok,
              'task is not (model, sfield=gfield, efield=None) with the '
              'gradient tolerance', ctx.where(sm, cb))
    # V4: slots, jtvec round trip
    out = find('_out_ = _mp.process_map(_mp.solve, __, max_workers=__, '
               '**__)', jv)
    ctx.anchor(len(out) == 1, 'process_map call in jvec')
    o = out[0][1]['_out_']
    sl = find(f'for _i_, (_s_, _f_) in enumerate(self._srcfreq):\n'
              f"    _g_ = self._load({o}[_i_][0], 'efield')\n"
              f'    _r_ = self._get_responses(_s_, _f_, _g_)\n'
              f"    self.data['jvec'].loc[_s_, :, _f_] = _r_", jv)
    ctx.check('C08.V4.slots', 'jvec stores responses by position',
              len(sl) == 1, 'sensitivity responses are not stored in the '
              'slot of their own task', ctx.where(sm, jv))
    ctx.check('C08.V4.slots', 'jvec evaluates the misfit (forward fields) '
              'first', has('_ = self.misfit', jv) or has('self.misfit', jv),
              'forward fields are not guaranteed to exist', ctx.where(sm, jv))
    jtv = sm.method('Simulation', 'jtvec')
    jps = au.params(jtv)
    ctx.check('C08.V4.weights', 'jtvec divides by the stored weights',
              has(f'self.data.residual[...] = {jps[1]} / '
                  'self.data.weights.data', jtv),
              'the vector is not divided by the data weights before it '
              'replaces the residual', ctx.where(sm, jtv))
    rf = sm.method('Simulation', '_get_rfield')
    r_ = find('_r_ = self.data.residual.loc[__, :, __].data', rf)
    w_ = find('_w_ = self.data.weights.loc[__, :, __].data', rf)
    ok = len(r_) == 1 and len(w_) == 1 and has(
        f'{r_[0][1]["_r_"]} * {w_[0][1]["_w_"]} / __', rf)
    ctx.check('C08.V4.weights', '_get_rfield multiplies by the same weights',
              ok, 'the division by the weights in jtvec is not undone by a '
              'multiplication with the same weights', ctx.where(sm, rf))
    # the stored residual is saved as a COPY before it is overwritten and
    # written back afterwards (a view would be overwritten with the vector)
    sv_ = find('_b_ = self.data.residual.data.copy()', jtv) + \
        find("_b_ = self.data['residual'].data.copy()", jtv) + \
        find('_b_ = self.data.residual.copy()', jtv)
    ok = len(sv_) == 1
    if ok:
        b_ = sv_[0][1]['_b_']
        over = find('self.data.residual[...] = _v_ / __', jtv)
        back = find(f'self.data.residual[...] = {b_}', jtv)
        ok = len(over) == 1 and len(back) == 1 and \
            sv_[0][0].lineno < over[0][0].lineno < back[0][0].lineno
    ctx.check('C08.V4.weights', 'jtvec saves a copy of the residual and '
              'restores it', ok, 'the residual of the misfit is not saved as '
              'a copy before jtvec overwrites it in place / not written back: '
              'a later gradient is J^T of the last vector, not of the '
              'residual', ctx.where(sm, jtv))
    # the residual / weights that jtvec swaps must be THIS simulation's: the
    # survey data can carry residual and weights of another simulation (a
    # shared or copied survey), so jtvec evaluates the misfit first
    mis_ = [n for n in ast.walk(jtv) if isinstance(n, ast.Attribute) and
            ast.unparse(n) == 'self.misfit']
    over_ = find('self.data.residual[...] = _v_ / __', jtv)
    ctx.check('C08.V4.weights', 'jtvec evaluates the misfit before it swaps '
              'the residual', bool(mis_) and bool(over_) and
              min(m.lineno for m in mis_) < over_[0][0].lineno,
              'jtvec divides by data.weights and saves data.residual without '
              'making sure they were computed by this simulation: with a '
              'survey that carries the residual of another simulation, '
              'jtvec(w) returns the misfit gradient (w ignored) and leaves '
              'the foreign residual behind', ctx.where(sm, jtv))
    # siblings agree on the layered mode: jvec refuses it, so must jtvec (the
    # layered gradient is a finite difference of the misfit, it cannot take
    # an arbitrary vector)
    def refuses(fn_):
        return any(isinstance(n, ast.If) and ast.unparse(n.test) ==
                   'self.layered' and any(isinstance(b, ast.Raise)
                                          for b in n.body)
                   for n in ast.walk(fn_))
    ctx.check('C08.V4.weights', 'jtvec refuses layered mode like jvec',
              refuses(jtv) or not refuses(jv), 'jvec raises '
              'NotImplementedError for layered simulations, jtvec computes '
              'something: the layered finite-difference gradient ignores the '
              'vector (jtvec(0) != 0, jtvec(2w) != 2 jtvec(w))',
              ctx.where(sm, jtv))
    ctx.check('C08.V4.weights', 'jtvec uses the gradient machinery',
              has('self.gradient', jtv), 'jtvec does not go through the '
              'gradient', ctx.where(sm, jtv))
    # J^T back-propagates from exactly the positions the forward operator
    # samples (absolute receiver coordinates), and, for computational grids
    # other than the model grid, brings the result back with the transposed
    # volume average, component by component
    from .c07 import adjoint_sources, gradient_callsite
    kf = ctx.repo.mod('emg3d/maps.py').func('interp_edges_to_vol_averages')
    gradient_callsite(ctx, au.params(kf), R='C08.V4.scatter')
    from .c15 import rule_VA5

    class Map:
        def __init__(self, c):
            self.c, self.repo = c, c.repo

        def check(self, rule, *a, **k):
            if rule in ('C07.AS.source', 'C07.AS.nan'):
                return self.c.check('C08.V4.adjoint_sources', *a, **k)
            return True

        def anchor(self, *a):
            return self.c.anchor(*a)

        def where(self, m, n):
            return self.c.where(m, n)
    adjoint_sources(Map(ctx))
    rule_VA5(ctx, 'C08.V4.adjoint_grid')
    ctx.floor('C08.V4.adjoint_sources', 5)
    ctx.floor('C08.V4.adjoint_grid', 4)
    # a cached gradient / misfit must not survive clean(): after a model
    # update + clean('computed') the gradient returned has to be the one of
    # the new model (rule of C12, shared)
    from ..core.report import Renamed
    from . import c12 as _c12
    _m = ctx.repo.mod(_c12.SIMS)
    _c12.rule_OW3(Renamed(ctx, lambda r: 'C08.V4.clean' if r.startswith(
        'C12.OW3.clean') else 'C08.V4.clean'.rsplit('.', 1)[0] + '.clean_files'),
        _m, _c12.Effects(ctx, _m))
    # gradient / jtvec apply the transposed volume average unless the grids
    # are EQUAL: mesh equality has to compare both meshes (rule of C15)
    from ..core.report import Filtered
    from . import c15 as _c15
    _c15.rule_equal_grids(Filtered(ctx, 'C15.VA1.identity',
                                   'C08.V4.adjoint_grid'))
