"""C13 - misfit and data weights follow the noise model and stay untouched.

Rules (DESIGN.md 4/C13):
  N1  formulas: standard deviation, weights, misfit (and its layered twins)
  N2  no in-place operation on a value aliased to stored noise data; only the
      setters write the noise storage
  N3  setters validate (> 0) before storing
  N4  select(): one selection dict, paired with the filtered dictionaries,
      applied to every data variable
"""
import ast

import sympy as sp

from ..core import astutil as au
from ..core.cfg import CFG, solve_forward
from ..core.effects import root_name, store_targets
from ..core.report import AnalysisError
from ..expr.lift import Lifter, straight_paths, equal
from ..core.template import find, has
from ..core.canon import ct

LEVEL = 'other'
SURV = 'emg3d/surveys.py'
SIMS = 'emg3d/simulations.py'
MP = 'emg3d/_multiprocessing.py'
RUN = 'emg3d/cli/run.py'
PROTECTED = ('noise_floor', 'relative_error', 'standard_deviation',
             '_noise_floor', '_relative_error')
VIEW_CALLS = ('np.asarray', 'np.atleast_1d', 'np.atleast_3d', 'np.squeeze',
              'np.real', 'np.ravel')


def unsum(e):
    """SUM is a linear functional: compare summands."""
    return e.replace(lambda x: getattr(x, 'func', None) is not None and
                     str(x.func) == 'SUM', lambda x: x.args[0])



def misfit_formula(ctx):
    """Simulation.misfit, lifted path by path (shared with C07: the gradient
    is the derivative of THIS value)."""
    # misfit
    mm = ctx.repo.mod(SIMS)
    mf = [m for m in mm.methods('Simulation', 'misfit')
          if 'property' in au.decorator_names(m)]
    ctx.anchor(len(mf) == 1, 'Simulation.misfit')
    std = sp.Symbol('std', positive=True)
    s, o = sp.symbols('s o')
    lf2 = Lifter({'self.survey.standard_deviation': std,
                  'self.data.synthetic': s, 'self.data.observed': o},
                 {}, mm.rel, strict=False)
    paths = straight_paths(au.body_nodoc(mf[0]), lf2)
    ok_paths = 0
    for p in paths:
        if p.raised or p.holds('self._misfit is None') is not True:
            continue
        fresh_w = p.holds("'weights' not in self.data.keys()")
        val = p.env.get('self._misfit')
        if val is None:
            continue
        w = p.env.get("self.data['weights']")
        ctx.check('C13.N5.weights', 'misfit: weights from the current noise '
                  f'model (path {"with" if w is not None else "without"} a '
                  'weight store)', w is not None,
                  'a recomputed misfit re-uses weights stored earlier in the '
                  'survey: an explicit assignment of noise_floor / '
                  'relative_error / standard_deviation made in between is '
                  'ignored (also by new simulations on that survey)',
                  ctx.where(mm, mf[0]))
        if w is not None:
            ctx.check('C13.N1.weights', 'misfit: weights = std^-2',
                      w is not None and equal(w, std**-2),
                      f'data weights are `{w}`, documented 1/std^2',
                      ctx.where(mm, mf[0]), sample={'lifted': str(w)})
            r = s - o
            want = sp.re(std**-2 * sp.conjugate(r) * r) / 2
            ok = equal(unsum(val), want)
            ctx.check('C13.N1.misfit', 'Simulation.misfit formula', ok,
                      f'misfit is `{val}`; documented: half the sum of '
                      'w |syn - obs|^2', ctx.where(mm, mf[0]),
                      sample={'lifted': str(val)})
            ok_paths += 1
            res = p.env.get("self.data['residual']")
            ctx.check('C13.N1.misfit', 'Simulation.misfit residual',
                      res is not None and equal(res, s - o),
                      f'stored residual is `{res}`, must be synthetic - '
                      'observed', ctx.where(mm, mf[0]))
    ctx.need(ok_paths >= 1, 'misfit: no path computing weights and misfit')


def rule_N1(ctx):
    sm = ctx.repo.mod(SURV)
    g = [m for m in sm.methods('Survey', 'standard_deviation')
         if 'property' in au.decorator_names(m)]
    ctx.anchor(len(g) == 1, 'Survey.standard_deviation getter')
    nf, re_ = sp.symbols('nf re', positive=True)
    d = sp.Symbol('d')
    env = {'self.noise_floor': nf, 'self.relative_error': re_,
           'self.data.observed': d}
    lf = Lifter(env, {'self.data.observed.copy': lambda *a: sp.Integer(0)},
                sm.rel, strict=False)
    paths = straight_paths(au.body_nodoc(g[0]), lf)
    seen = 0
    for p in paths:
        if p.returned is None or p.returned[0] != 'value':
            continue
        stored = p.holds("'standard_deviation' in self._data.keys()")
        if stored:
            continue
        has_nf = p.holds('self.noise_floor is not None')
        has_re = p.holds('self.relative_error is not None')
        if has_nf is None or has_re is None:
            continue
        want = sp.sqrt((nf**2 if has_nf else 0) +
                       (sp.Abs(re_ * d)**2 if has_re else 0))
        seen += 1
        ctx.check('C13.N1.std', f'standard_deviation (noise_floor '
                  f'{"set" if has_nf else "None"}, relative_error '
                  f'{"set" if has_re else "None"})',
                  equal(p.returned[1], want),
                  f'standard deviation is `{p.returned[1]}`, documented '
                  f'`{want}`', ctx.where(sm, g[0]),
                  sample={'lifted': str(p.returned[1]), 'want': str(want)})
    ctx.need(seen >= 3, 'standard_deviation: computed paths not found')
    misfit_formula(ctx)
    mm = ctx.repo.mod(SIMS)
    std = sp.Symbol('std', positive=True)
    s, o = sp.symbols('s o')
    # layered twins
    mp = ctx.repo.mod(MP)
    for fname in ('layered', '_fd_gradient'):
        fn = mp.func(fname)
        cands = find('_m_ = np.sum(_w_ * (_r_.conj() * _r_)).real / __', fn) \
            or find('_m_ = np.sum(__).real / __', fn) or \
            find('_m_ = np.sum(__).real', fn)
        ctx.anchor(len(cands) == 1, f'misfit expression in {fname}')
        bb = cands[0][1]
        cands = [cands[0][0]]
        wv, rv = sp.Symbol('w', positive=True), sp.Symbol('r')
        env_ = {}
        if '_w_' in bb:
            env_ = {bb['_w_']: wv, bb['_r_']: rv}
        else:
            nm = sorted({x.id for x in ast.walk(cands[0].value)
                         if isinstance(x, ast.Name)} - {'np'})
            env_ = {n_: (rv if sum(1 for x in ast.walk(cands[0].value)
                                   if isinstance(x, ast.Name) and x.id == n_)
                         > 1 else wv) for n_ in nm}
        lf3 = Lifter(env_, {}, mp.rel, strict=True)
        val = lf3.lift(cands[0].value)
        want = sp.re(wv * sp.conjugate(rv) * rv) / 2
        ctx.check('C13.N1.misfit', f'_multiprocessing.{fname} misfit twin',
                  equal(unsum(val), want), f'layered misfit `{val}` differs '
                  'from the Simulation.misfit formula',
                  ctx.where(mp, cands[0]), sample={'lifted': str(val)})
    fd = mp.func('_fd_gradient')
    ps = au.params(fd)
    mf_ = find('_m_ = np.sum(_w_ * (_r_.conj() * _r_)).real / __', fd)
    ok = False
    if mf_:
        rname = mf_[0][1]['_r_']
        rs = find(f'{rname} = _resp_ - {ps[2]}', fd)
        ok = len(rs) == 1 and has(
            f'{rs[0][1]["_resp_"]} = _empymod_fwd(__, __, __)', fd)
    ctx.check('C13.N1.misfit', '_fd_gradient residual', ok,
              'finite-difference residual is not response - data',
              ctx.where(mp, fd))
    ctx.floor('C13.N1.misfit', 5)


# ---------------------------------------------------------------------------
def is_alias_expr(n, alias_names):
    """Does expression `n` denote (a view of) protected stored noise data?"""
    if isinstance(n, ast.Name):
        return n.id in alias_names
    if isinstance(n, ast.Attribute):
        if n.attr in PROTECTED:
            return True
        if n.attr in ('data', 'values', 'T', 'real', 'imag'):
            return is_alias_expr(n.value, alias_names)
        return False
    if isinstance(n, ast.Subscript):
        if isinstance(n.slice, ast.Constant) and n.slice.value in PROTECTED \
                + ('standard_deviation',):
            return True
        return is_alias_expr(n.value, alias_names)
    if isinstance(n, ast.IfExp):
        return is_alias_expr(n.body, alias_names) or is_alias_expr(
            n.orelse, alias_names)
    if isinstance(n, ast.Call):
        f = ast.unparse(n.func)
        if f in VIEW_CALLS and n.args:
            return is_alias_expr(n.args[0], alias_names)
        if isinstance(n.func, ast.Attribute) and n.func.attr in (
                'reshape', 'ravel', 'view', 'squeeze', 'get'):
            return is_alias_expr(n.func.value, alias_names)
        return False
    return False


INPLACE_METHODS = ('fill', 'sort', 'put', 'itemset', 'resize', 'partition',
                   'clip')


def rule_N2(ctx):
    n_funcs = 0
    n_ops = 0
    for rel in (SURV, SIMS, RUN, MP):
        mod = ctx.repo.mod(rel)
        for fn in [x for x in ast.walk(mod.tree)
                   if isinstance(x, ast.FunctionDef)]:
            n_funcs += 1
            cfg = CFG(fn)
            # reaching origins of local names: set of (name, 'A'|'F')
            def transfer(n, s, lab, cfg=cfg):
                st = n.ast
                if n.kind not in ('stmt', 'for') or st is None:
                    return [s]
                cur = dict(s)
                if isinstance(st, ast.Assign):
                    alias_now = {k for k, v in cur.items() if v == 'A'}
                    val_alias = is_alias_expr(st.value, alias_now)
                    for t in st.targets:
                        for e in (t.elts if isinstance(t, ast.Tuple)
                                  else [t]):
                            if isinstance(e, ast.Name):
                                cur[e.id] = 'A' if val_alias else 'F'
                elif isinstance(st, ast.For) and isinstance(
                        st.target, ast.Name):
                    cur[st.target.id] = 'F'
                return [tuple(sorted(cur.items()))]
            inn = solve_forward(cfg, [()], transfer)
            for node in cfg.nodes:
                st = node.ast
                if node.kind != 'stmt' or st is None:
                    continue
                alias_now = set()
                for s in inn[node]:
                    alias_now |= {k for k, v in s if v == 'A'}
                bad = None
                if isinstance(st, ast.AugAssign):
                    n_ops += 1
                    if is_alias_expr(st.target, alias_now):
                        bad = 'augmented assignment'
                elif isinstance(st, ast.Assign):
                    for t in st.targets:
                        if isinstance(t, ast.Subscript) and is_alias_expr(
                                t.value, alias_now) and not is_state_store(t):
                            n_ops += 1
                            bad = 'element store'
                for c in ast.walk(st):
                    if isinstance(c, ast.Call):
                        if isinstance(c.func, ast.Attribute) and \
                                c.func.attr in INPLACE_METHODS and \
                                is_alias_expr(c.func.value, alias_now):
                            bad = f'in-place method .{c.func.attr}()'
                        for kw in c.keywords:
                            if kw.arg == 'out' and is_alias_expr(
                                    kw.value, alias_now):
                                bad = 'out= argument'
                if bad:
                    owner = au.qualname(fn)
                    if rel == SURV and owner in ('Survey._set_nf_re',
                                                 'Survey.standard_deviation'):
                        continue
                    ctx.fail('C13.N2.inplace', f'{owner} `{au.stext(st)}`',
                             f'{bad} on a value that aliases the stored '
                             'noise floor / relative error / standard '
                             'deviation: the noise model is changed without '
                             'an explicit assignment', ctx.where(mod, st))
    ctx.ok('C13.N2.inplace', f'{n_funcs} functions, {n_ops} in-place '
           'operations examined for aliasing of stored noise data',
           sample={'functions': n_funcs, 'inplace_ops': n_ops})
    ctx.need(n_ops >= 10, 'in-place operation scan found too few sites')
    # writers of the noise storage
    writers = set()
    for rel in (SURV, SIMS, RUN, MP):
        mod = ctx.repo.mod(rel)
        for fn in [x for x in ast.walk(mod.tree)
                   if isinstance(x, ast.FunctionDef)]:
            for st in au.walk_local(fn):
                for t in store_targets(st) if isinstance(
                        st, (ast.Assign, ast.AugAssign, ast.Delete)) else []:
                    if is_state_store(t):
                        writers.add((rel, au.qualname(fn)))
                        ok = rel == SURV and au.qualname(fn) in (
                            'Survey._set_nf_re', 'Survey.standard_deviation')
                        ctx.check('C13.N2.writers', f'{au.qualname(fn)} '
                                  f'`{au.stext(st)}`', ok,
                                  'noise storage is written outside the '
                                  'noise_floor / relative_error / '
                                  'standard_deviation setters',
                                  ctx.where(mod, st))
    # ... and the setters themselves are invoked only by the constructor (an
    # assignment `x.noise_floor = ..` / `x.standard_deviation = ..` anywhere
    # else in the package changes the noise model behind the user's back)
    nset = 0
    for rel in ctx.repo.package_files():
        mod = ctx.repo.mod(rel)
        for st in ast.walk(mod.tree):
            if not isinstance(st, (ast.Assign, ast.AugAssign, ast.Delete)):
                continue
            for t in store_targets(st):
                if isinstance(t, ast.Attribute) and t.attr in (
                        'noise_floor', 'relative_error',
                        'standard_deviation'):
                    nset += 1
                    qn = au.qualname(st)
                    ok = rel == SURV and qn == 'Survey.__init__' and \
                        t.attr != 'standard_deviation'
                    ctx.check('C13.N2.writers', f'{qn} `{au.stext(st)[:60]}`',
                              ok, f'`{t.attr}` is assigned inside the '
                              'package (outside the constructor): noise '
                              'floor, relative error and standard deviation '
                              'may change only by an explicit assignment of '
                              'the user', ctx.where(mod, st))
    ctx.need(nset >= 2, 'constructor assignments of noise parameters not found')
    ctx.floor('C13.N2.writers', 5)
    # add_noise writes only data[add_to]
    sm = ctx.repo.mod(SURV)
    an = sm.method('Survey', 'add_noise')
    ps = au.params(an)
    for st in au.walk_local(an):
        if isinstance(st, (ast.Assign, ast.AugAssign)):
            for t in store_targets(st):
                if isinstance(t, (ast.Subscript, ast.Attribute)) and \
                        root_name(t) == 'self':
                    txt = ast.unparse(t)
                    ok = txt.startswith(f'self.data[{ps[3]}]')
                    ctx.check('C13.N2.add_noise', f'add_noise `{au.stext(st)}`',
                              ok, f'add_noise stores to `{txt}`; it may only '
                              f'write the data set named by `{ps[3]}`',
                              ctx.where(sm, st))
    ctx.floor('C13.N2.add_noise', 3)


def is_state_store(t):
    txt = ast.unparse(t).replace('"', "'")
    import re
    if re.match(r"^\w+(\.\w+)*\.(_data|data)\.attrs\[", txt):
        return True      # Dataset-level attributes hold the noise settings
    for k in ("['standard_deviation']", "['_noise_floor']",
              "['_relative_error']", "['_' + name]"):
        if txt.endswith(k) and ('._data' in txt or '.data' in txt):
            return True
    return False


# ---------------------------------------------------------------------------
def rule_N3(ctx):
    sm = ctx.repo.mod(SURV)
    setters = [m for m in sm.methods('Survey', 'standard_deviation')
               if any(d.endswith('.setter') for d in au.decorator_names(m))]
    ctx.anchor(len(setters) == 1, 'standard_deviation setter')
    for fn, label in ((setters[0], 'standard_deviation setter'),
                      (sm.method('Survey', '_set_nf_re'), '_set_nf_re')):
        cfg = CFG(fn)
        tests = [n for n in ast.walk(fn) if isinstance(n, ast.If) and any(
            isinstance(b, ast.Raise) for b in n.body)]
        good = None
        for t in tests:
            cmps = [c for c in ast.walk(t.test) if isinstance(c, ast.Compare)
                    and len(c.ops) == 1 and isinstance(
                        c.ops[0], (ast.LtE, ast.Lt)) and isinstance(
                            c.comparators[0], ast.Constant) and
                    c.comparators[0].value == 0]
            if cmps:
                good = (t, cmps[0])
        ctx.check('C13.N3.validate', f'Survey.{label}: positivity test',
                  good is not None and isinstance(good[1].ops[0], ast.LtE),
                  'values are not rejected when <= 0 (zero standard '
                  'deviation gives infinite weights)', ctx.where(sm, fn))
        if good is None:
            continue
        tnode = cfg.node_of(good[0])
        dom = cfg.dominators()
        for n in cfg.nodes:
            if n.kind == 'stmt' and isinstance(n.ast, ast.Assign) and any(
                    is_state_store(t) for t in n.ast.targets):
                val = n.ast.value
                if isinstance(val, ast.Name) or not (
                        isinstance(val, ast.Constant)):
                    # stores of validated values must be dominated by the test
                    # (storing None / a string tag needs no validation)
                    gs = au.guards_of(n.ast, fn)
                    none_arm = any('is not None' in ast.unparse(t) and not pol
                                   or 'is None' in ast.unparse(t) and pol
                                   for t, pol in gs)
                    if none_arm:
                        continue
                    in_valid_arm = dom(tnode, n)
                    if label == '_set_nf_re' and not in_valid_arm:
                        # the final attrs store happens after the validated
                        # arm joined again: the test arm must precede it
                        in_valid_arm = good[0].lineno < n.ast.lineno
                    ctx.check('C13.N3.validate', f'Survey.{label} '
                              f'`{au.stext(n.ast)}`', in_valid_arm,
                              'noise data are stored without passing the '
                              'positivity test', ctx.where(sm, n.ast))
    ctx.floor('C13.N3.validate', 4)


def rule_N3_flag(ctx):
    """Writer/reader agreement for noise_floor / relative_error: the getter
    may only discriminate scalar vs array on state that the setter refreshes
    on EVERY assignment.  _set_nf_re stores attrs[name] on every path; the
    array data['_'+name] only on the array path (and never removes it)."""
    sm = ctx.repo.mod(SURV)
    st = sm.method('Survey', '_set_nf_re')
    pars = au.params(st)
    ctx.anchor(len(pars) == 3, '_set_nf_re(self, name, value)')
    N = pars[1]
    top = [x for x in au.body_nodoc(st)]
    must_attrs = any(find(f'self._data.attrs[{N}] = __', x) or
                     find(f'self.data.attrs[{N}] = __', x)
                     for x in top if isinstance(x, ast.Assign))
    ctx.check('C13.N3.flag', '_set_nf_re refreshes attrs[name] on every path',
              must_attrs, 'the scalar/array flag in data.attrs is not '
              'rewritten by every assignment', ctx.where(sm, st))
    arr = [n for n, b in find(f"self.data['_' + {N}] = __", st) +
           find(f"self._data['_' + {N}] = __", st)]
    ctx.anchor(len(arr) >= 1, 'array store data["_"+name] in _set_nf_re')
    arr_guarded = all(au.guards_of(n, st) for n in arr)
    removes = any(isinstance(n, ast.Delete) or (
        isinstance(n, ast.Call) and isinstance(n.func, ast.Attribute) and
        n.func.attr in ('drop_vars', 'drop', 'pop')) for n in ast.walk(st))
    presence_ok = (not arr_guarded) or removes
    for name in ('noise_floor', 'relative_error'):
        getters = [m for m in sm.methods('Survey', name)
                   if 'property' in au.decorator_names(m)]
        ctx.anchor(len(getters) == 1, f'Survey.{name} getter')
        g = getters[0]
        ifs = [n for n in ast.walk(g) if isinstance(n, (ast.If, ast.IfExp))]
        ctx.anchor(len(ifs) >= 1, f'Survey.{name} getter: scalar/array branch')
        for i in ifs:
            reads_attr = any(
                isinstance(x, ast.Subscript) and
                ast.unparse(x.value).endswith('.attrs') and
                isinstance(x.slice, ast.Constant) and x.slice.value == name
                for x in ast.walk(i.test))
            reads_var = any(isinstance(x, ast.Constant) and
                            x.value == '_' + name for x in ast.walk(i.test))
            ok = reads_attr or (reads_var and presence_ok)
            ctx.check('C13.N3.flag', f'Survey.{name} getter discriminator',
                      ok, f'the getter decides scalar vs array by '
                      f'`{ast.unparse(i.test)}`, which _set_nf_re does not '
                      'refresh on every assignment (the stored array is never '
                      'removed): a later scalar or None assignment is ignored',
                      ctx.where(sm, i))


def cached_misfit_follows_noise(ctx, rule):
    """`Simulation.misfit` returns a cached value.  The noise model lives in
    the survey and can be assigned at any time (`survey.relative_error =
    ..`); for the returned misfit to be the documented formula with the
    CURRENT standard deviation, the decision to recompute has to look at
    something that such an assignment changes (the stored weights against
    the current standard deviation, a counter of the survey, ...).  A test
    of the cached value alone returns the misfit of the old noise model
    (witness K6)."""
    sm = ctx.repo.mod(SIMS)
    mf = [m for m in sm.methods('Simulation', 'misfit')
          if 'property' in au.decorator_names(m)]
    ctx.anchor(len(mf) == 1, 'Simulation.misfit getter')
    tests = [n.test for n in ast.walk(mf[0]) if isinstance(n, ast.If) and
             any(isinstance(x, ast.Attribute) and x.attr == '_misfit'
                 for x in ast.walk(n.test))]
    ctx.anchor(len(tests) >= 1, 'cache test of Simulation.misfit')
    reads = set()
    for t in tests:
        for x in ast.walk(t):
            if isinstance(x, ast.Attribute):
                reads.add(x.attr)
            elif isinstance(x, ast.Name):
                reads.add(x.id)
    ok = bool(reads - {'_misfit', 'self', 'None'})
    ctx.check(rule, 'cached misfit follows the current noise model', ok,
              'Simulation.misfit is recomputed only if the cached value is '
              'None; assigning noise_floor / relative_error / '
              'standard_deviation of the survey afterwards does not reset '
              'it: the misfit (and the cached gradient) of the old noise '
              'model is returned until clean() / compute()',
              ctx.where(sm, tests[0]))


def flag_arm_keeps_array(ctx, rule):
    """An array-valued noise setting is saved as the string flag
    'data._<name>' plus the array among the data sets; on loading (and in
    copy / select) the data sets are restored first and the flag is then
    handed to the setter.  Given the flag, the setter may therefore not
    touch the stored array: every store to / deletion of `data['_' + name]`
    in `_set_nf_re` belongs to the arm for numeric values."""
    sm = ctx.repo.mod(SURV)
    fn = sm.method('Survey', '_set_nf_re')
    ps = au.params(fn)
    name, value = ps[1], ps[2]
    from ..core.canon import ct
    n = 0
    for st in ast.walk(fn):
        tgs = []
        if isinstance(st, ast.Assign):
            tgs = st.targets
        elif isinstance(st, ast.AugAssign):
            tgs = [st.target]
        elif isinstance(st, ast.Delete):
            tgs = st.targets
        elif isinstance(st, ast.Expr) and isinstance(st.value, ast.Call) \
                and isinstance(st.value.func, ast.Attribute) and \
                st.value.func.attr in ('pop', 'drop_vars', 'drop'):
            tgs = [st.value]
        for t in tgs:
            txt = ast.unparse(t)
            if not (('.data' in txt or '._data' in txt) and name in txt and
                    'attrs' not in txt):
                continue
            n += 1
            ok = False
            for t_, pol in au.guards_of(st, fn):
                if not pol:
                    continue
                cj = t_.values if isinstance(t_, ast.BoolOp) and isinstance(
                    t_.op, ast.And) else [t_]
                if any(ast.unparse(c_).replace(' ', '') == ct(
                        f'not isinstance({value}, str)') for c_ in cj):
                    ok = True
            ctx.check(rule, f'Survey._set_nf_re `{au.stext(st)[:60]}`', ok,
                      f'the stored array of the noise setting is '
                      f'{"deleted" if isinstance(st, ast.Delete) else "written"}'
                      ' also when the setter gets the flag (a string) / None: '
                      'from_dict, copy and select restore the array and then '
                      'pass the flag, so the restored array is lost and the '
                      'loaded survey cannot give its noise floor / relative '
                      'error / standard deviation', ctx.where(sm, st))
    ctx.need(n >= 1, 'no store of the noise array in _set_nf_re')


def rule_N3_scalar(ctx):
    """A noise parameter with exactly one entry (a scalar, or an array of the
    documented broadcastable shapes for a survey with one source / receiver /
    frequency) is stored as a float.  `float(a)` only accepts 0-dimensional
    arrays (NumPy >= 2), so the conversion has to go through .item() /
    .ravel()[0] / squeeze."""
    sm = ctx.repo.mod(SURV)
    st = sm.method('Survey', '_set_nf_re')
    br = find('if _v_.size == 1:\n    _v_ = _c_', st)
    ctx.anchor(len(br) == 1, 'one-value branch in _set_nf_re')
    V, C = br[0][1]['_v_'], br[0][1]['_c_'].replace(' ', '')
    ok = C in (f'{V}.item()', f'float({V}.item())', f'float({V}.ravel()[0])',
               f'float({V}.squeeze())', f'float(np.squeeze({V}))',
               f'float({V}.flat[0])', f'{V}.ravel()[0]')
    cast = [n for n in ast.walk(st) if isinstance(n, ast.Assign) and
            ast.unparse(n.targets[0]) == V and
            ast.unparse(n.value).startswith('np.asarray(')]
    ctx.check('C13.N3.validate', 'Survey._set_nf_re: one-entry arrays become '
              'a float', ok, f'`{V} = {br[0][1]["_c_"]}` with {V} = '
              'np.asarray(input) of any dimension: float() of a (1,1,1) array '
              'raises TypeError, so a per-frequency / per-source noise array '
              'of a survey with a single frequency / source is rejected',
              ctx.where(sm, br[0][0]), sample={'conversion': C,
                                               'cast': bool(cast)})


def rule_N3_attrs(ctx):
    """The noise settings live in the ATTRIBUTES of the Dataset.  The
    shorthand `dataset.name` resolves data variables before attributes
    (xarray), so a data set called `noise_floor` / `relative_error` would be
    read instead of the setting: every read goes through `.attrs[...]`."""
    sm = ctx.repo.mod(SURV)
    n = 0
    for node in ast.walk(sm.cls('Survey')):
        if isinstance(node, ast.Attribute) and node.attr in (
                'noise_floor', 'relative_error') and isinstance(
                    node.ctx, ast.Load) and ast.unparse(node.value) in (
                        'self.data', 'self._data'):
            n += 1
            ctx.check('C13.N3.flag', f'{au.qualname(node)} `{ast.unparse(node)}`',
                      False, 'the noise setting is read with the attribute '
                      'shorthand of the Dataset, which prefers a data '
                      f'variable named `{node.attr}` over the attribute: '
                      'such a data set silently replaces the noise model and '
                      'explicit assignments are ignored',
                      ctx.where(sm, node))
    reads = [x for x in ast.walk(sm.cls('Survey')) if isinstance(
        x, ast.Subscript) and ast.unparse(x.value).endswith('.attrs') and
        isinstance(x.slice, ast.Constant) and x.slice.value in (
            'noise_floor', 'relative_error') and isinstance(x.ctx, ast.Load)]
    ctx.ok('C13.N3.flag', f'Survey: noise settings read through .attrs '
           f'({len(reads)} reads, {n} shorthand reads)',
           sample={'attrs_reads': len(reads), 'shorthand_reads': n})


def rule_N4(ctx):
    sm = ctx.repo.mod(SURV)
    fn = sm.method('Survey', 'select')
    sv = find('_s_ = self.to_dict()', fn)
    ctx.anchor(len(sv) == 1, 'survey dict in select()')
    S = sv[0][1]['_s_']
    lp = [n for n in fn.body if isinstance(n, ast.For) and ast.unparse(
        n.iter).replace('.keys()', '').replace('"', "'") == f"{S}['data']"]
    ctx.anchor(len(lp) == 1, 'loop over the data variables in select()')
    sels = [n for n in fn.body if isinstance(n, ast.Assign) and isinstance(
        n.value, ast.Dict) and not n.value.keys and isinstance(
            n.targets[0], ast.Name)]
    ctx.anchor(len(sels) == 1, 'selection dictionary in select()')
    SEL = sels[0].targets[0].id
    m = find(f"{S}['data'][_k_] = self.data[_k_].sel(**{SEL})", lp[0])
    # the value stored for every key is a COPY of the selection (also when it
    # is bound to a local first)
    mc = []
    for st_, b_ in find(f"{S}['data'][_k_] = _v_", lp[0]):
        V = st_.value
        if isinstance(V, ast.Name):
            defs_ = [d for d in ast.walk(lp[0]) if isinstance(d, ast.Assign)
                     and any(isinstance(t, ast.Name) and t.id == V.id
                             for t in d.targets)]
            V = defs_[0].value if len(defs_) == 1 else V
        sel_ = [c for c in ast.walk(V) if isinstance(c, ast.Call) and
                isinstance(c.func, ast.Attribute) and c.func.attr == 'sel' and
                ast.unparse(c.func.value) == f"self.data[{b_['_k_']}]" and
                any(k.arg is None and ast.unparse(k.value) == SEL
                    for k in c.keywords)]
        cp_ = [c for c in ast.walk(V) if isinstance(c, ast.Call) and
               isinstance(c.func, ast.Attribute) and c.func.attr == 'copy' and
               any(x is sel_[0] for x in ast.walk(c.func.value))] \
            if sel_ else []
        if sel_ and cp_:
            mc.append((st_, b_))
    ctx.check('C13.N4.copy', 'select: the selected data are copies',
              len(mc) == 1, 'with an empty selection `.sel()` returns the '
              "parent's own arrays: the selected survey shares observed data "
              'and noise arrays with its parent (add_noise on the selection '
              'changes the parent)', ctx.where(sm, lp[0]))
    m = m or mc
    pairs = {'sources': 'src', 'receivers': 'rec', 'frequencies': 'freq'}
    for par, dim in pairs.items():
        ifs = [n for n in fn.body if isinstance(n, ast.If) and
               ast.unparse(n.test) == f'{par} is not None']
        ctx.anchor(len(ifs) == 1, f'`if {par} is not None` in select()')
        ok = has(f"{SEL}['{dim}'] = {par}", ifs[0]) and has(
            f"{S}['{par}'] = {{_k_: {S}['{par}'][_k_] for _k_ in {par}}}",
            ifs[0])
        ctx.check('C13.N4.select', f'select: {par} <-> {dim}', ok,
                  f'the list filtering `{par}` and the list selecting '
                  f'dimension `{dim}` of the data are not the same',
                  ctx.where(sm, ifs[0]), sample={'param': par, 'dim': dim})
    ok = len(m) == 1 and m[0][1]['_k_'] == ast.unparse(lp[0].target) and \
        any(m[0][0] is x for x in lp[0].body)
    ctx.check('C13.N4.select', 'select: every data variable .sel(**selection)',
              ok, 'not every data variable is cut with the one selection',
              ctx.where(sm, lp[0]))
    # which entries count as empty is decided on the OBSERVED data: the array
    # that the nested helper tests with isnan has no definition outside the
    # `key == 'observed'` arm of the loop over the data sets
    gn = [n for n in ast.walk(fn) if isinstance(n, ast.FunctionDef) and
          n is not fn]
    okd = False
    if gn:
        isn = find('np.isnan(_d_)', gn[0])
        if isn and isn[0][1]['_d_'].isidentifier():
            D = isn[0][1]['_d_']
            kv = ast.unparse(lp[0].target)
            defs_ = [d for d in ast.walk(fn) if isinstance(d, ast.Assign) and
                     any(isinstance(t, ast.Name) and t.id == D
                         for t in d.targets)]
            okd = bool(defs_) and all(
                ct(f"{kv} == 'observed'") in au.guard_texts(d, fn) or any(
                    ct(f"{kv} == 'observed'") in g
                    for g in au.guard_texts(d, fn)) for d in defs_)
    ctx.check('C13.N4.select', 'select: empty entries decided on the observed '
              'data', okd, 'the array tested for NaN when removing empty '
              'sources / receivers / frequencies is (re)bound outside the '
              "`key == 'observed'` arm: with further data sets (noise arrays, "
              'synthetic data) the last one decides what is removed',
              ctx.where(sm, lp[0]))
    ctx.check('C13.N4.select', 'select: reduced survey from the cut dict',
              has(f'_r_ = Survey.from_dict({S})', fn),
              'the reduced survey is not built from the cut dictionary',
              ctx.where(sm, fn))
    # copy is deep
    cp = sm.method('Survey', 'copy')
    ret = [n for n in ast.walk(cp) if isinstance(n, ast.Return)]
    txt = ast.unparse(ret[-1].value).replace(' ', '')
    ctx.check('C13.N4.copy', 'Survey.copy', txt in (
        'self.from_dict(self.to_dict(True))',
        'self.from_dict(self.to_dict(copy=True))'),
        f'copy() is `{txt}` (not a deep copy through to_dict)',
        ctx.where(sm, cp))
    td = sm.method('Survey', 'to_dict')
    tps = au.params(td)
    deep = [n for n in ast.walk(td) if isinstance(n, ast.Return) and
            isinstance(n.value, ast.Call) and
            ast.unparse(n.value.func) == 'deepcopy']
    ctx.check('C13.N4.copy', 'Survey.to_dict(copy=True)', bool(deep) and any(
        ast.unparse(t) == tps[1] and pol
        for t, pol in au.guards_of(deep[0], td)),
        'to_dict(copy=True) does not deep-copy', ctx.where(sm, td))
    ctx.floor('C13.N4.select', 4)


FRESH_CALLS = ('np.array', 'np.ones', 'np.zeros', 'np.full', 'np.empty',
               'np.copy', 'np.sqrt', 'np.abs', 'abs', 'np.ones_like',
               'np.full_like', 'np.tile', 'np.repeat', 'np.concatenate')


def _fresh(e, fn, depth=4):
    """Does the expression yield an array of its own (arithmetic result,
    np.array / .copy() / constructors), not a view of or the very object the
    caller handed in (np.asarray, np.broadcast_to, reshape, a bare name)?"""
    if isinstance(e, ast.BinOp):
        return True
    if isinstance(e, ast.Call):
        f = ast.unparse(e.func)
        if f in FRESH_CALLS:
            return not any(k.arg == 'copy' and ast.unparse(k.value) == 'False'
                           for k in e.keywords)
        if isinstance(e.func, ast.Attribute) and e.func.attr in (
                'copy', 'astype', '__mul__', '__add__'):
            return not any(k.arg == 'copy' and ast.unparse(k.value) == 'False'
                           for k in e.keywords)
        return False
    if isinstance(e, ast.Name) and depth:
        v = au.value_of(e, fn)
        if v is not e:
            return _fresh(v, fn, depth - 1)
        ds = [d for d in au.all_defs(fn).get(e.id, [])] if hasattr(
            au, 'all_defs') else []
        vals = [d for d in ds if d is not None]
        return bool(vals) and all(
            isinstance(d, ast.AST) and _fresh(d, fn, depth - 1) for d in vals)
    return False


def rule_N3_own(ctx):
    """The arrays a survey keeps as noise floor / relative error / standard
    deviation are its own: an assignment stores a fresh array, so that a
    later in-place change of the array the caller handed in is not an
    operation that changes the noise model (and cannot bypass the positivity
    test)."""
    sm = ctx.repo.mod(SURV)
    sites = []
    for label, fn in (('standard_deviation setter', [
            m for m in sm.methods('Survey', 'standard_deviation')
            if any('setter' in d for d in au.decorator_names(m))]),
            ('_set_nf_re', [sm.method('Survey', '_set_nf_re')])):
        ctx.anchor(len(fn) == 1, f'Survey {label}')
        f = fn[0]
        for n in ast.walk(f):
            if isinstance(n, ast.Assign) and isinstance(
                    n.targets[0], ast.Subscript) and ast.unparse(
                    n.targets[0].value) in ('self.data', 'self._data'):
                sites.append((label, f, n))
    ctx.anchor(len(sites) >= 2, 'stores of noise arrays into the data set')
    for label, f, n in sites:
        v = n.value
        data = None
        if isinstance(v, ast.Call) and isinstance(v.func, ast.Attribute) \
                and v.func.attr == 'copy':
            kw = [k.value for k in v.keywords if k.arg == 'data']
            data = kw[0] if kw else None
        ok = data is not None and _fresh(data, f)
        ctx.check('C13.N3.own', f'Survey {label}: `{au.stext(n)[:60]}` '
                  'stores an array of its own', ok, 'the array stored as '
                  'noise data is (a view of) the object the caller handed '
                  f'in (`{ast.unparse(data) if data is not None else "?"}`)'
                  ': changing that array in place afterwards changes the '
                  'noise model of the survey without an assignment, and '
                  'without the positivity test', ctx.where(sm, n))


def run(ctx):
    ctx.explanation = (
        'The noise-model formulas are lifted from the AST into sympy and '
        'compared with the documented ones; an origin analysis (reaching '
        'definitions over per-function CFGs, origins ALIAS-of-stored-noise / '
        'FRESH) forbids in-place operations on aliases of the stored noise '
        'data in surveys.py, simulations.py, cli/run.py and '
        '_multiprocessing.py; writer sets of the noise storage, validation '
        'dominance and the selection table are read off the AST.')
    ctx.assumptions = ['A8 xarray: DataArray.data is the stored ndarray '
                       '(a reference); .copy(data=...) creates a new array',
                       'arithmetic expressions and non-view calls create '
                       'fresh arrays']
    rule_N1(ctx)
    rule_N2(ctx)
    rule_N3(ctx)
    rule_N3_flag(ctx)
    rule_N3_scalar(ctx)
    rule_N3_attrs(ctx)
    rule_N3_own(ctx)
    rule_N4(ctx)
    # cached weights (1/std^2) must not survive a replacement of the
    # observed data they were computed from (shared rule with C12.OW2)
    from . import c12
    sm = ctx.repo.mod(SIMS)
    E = c12.Effects(ctx, sm)
    # a plain copy / file of a simulation keeps the noise model of its
    # survey (explicit standard deviation and array-valued noise settings
    # are data sets of the survey)
    c12.plain_strip(ctx, sm, E.members['to_dict'], 'C13.N4.copy')
    from ..core.cfg import CFG
    n = 0
    for name, fn in sorted(E.members.items()):
        if name in c12.RESETTERS:
            continue
        cfg = CFG(fn)
        inv = [nd for nd in cfg.nodes if 'weights' in c12.node_invalidations(nd)]
        for nd in cfg.nodes:
            if nd.kind != 'stmt' or nd.ast is None:
                continue
            for it, st in c12.stmt_effects(nd.ast)[0]:
                if it == 'observed':
                    n += 1
                    ctx.check('C13.N5.weights', f'Simulation.{name}: new '
                              'observed data invalidate the cached weights',
                              c12.must_pass(cfg, nd, inv),
                              'observed data are replaced but data.weights '
                              '(1/std^2 of the OLD data) stay cached: the '
                              'next misfit uses weights and gap pattern of '
                              'the previous observations',
                              ctx.where(sm, st))
    ctx.need(n >= 1, 'no store to data.observed found in Simulation')
    # saved and re-loaded data keep their labels (rule of C17, shared)
    from .c17 import h5_order
    h5_order(ctx, 'C13.N4.h5order')
    flag_arm_keeps_array(ctx, 'C13.N3.flag')
    cached_misfit_follows_noise(ctx, 'C13.N5.weights')
