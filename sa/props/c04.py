"""C04 - restriction is the transpose of prolongation; coarse model conserves.

Rules (DESIGN.md 4/C04):
  T    the meaning of sc_dir agrees in seven places (finite-domain tables)
  R    core.restrict rows on interior coarse edges == (P column)^T with
       P = duplicate along / (l, 0, r) weights across   (21 branch x component
       forms, every along-axis class)
  W    restrict_weights: generic wl, w0, wr are the linear-interpolation
       weights of the every-second-node coarse grid (axiom A1)
  P    prolongation: += into 1:-1 transverse slices, duplicate/identity along,
       RegularGridProlongator weights y / 1-y (partition of unity)
  M    _restrict_model_parameters sums every child exactly once; coarse
       eta aliasing; coarse fields zero with the fine dtype; coarse grid =
       every second node
"""
import ast
import itertools

import sympy as sp

from ..core import astutil as au
from ..core.report import AnalysisError
from ..core.tables import FiniteEval
from ..expr.lift import Lifter, equal
from ..stencil.alg import Aff, Lin, Rat, idx_key, fmt_atom, Fr
from ..stencil.interp import Interp, subst_lin
from ..stencil.kernels import kernel_params
from ..core.template import find

LEVEL = 'proof'
CORE = 'emg3d/core.py'
SOLVER = 'emg3d/solver.py'
NOTC = {0: set(), 1: {0}, 2: {1}, 3: {2}, 4: {1, 2}, 5: {0, 2}, 6: {0, 1}}
ANISO = {'isotropic': (False, False), 'HTI': (True, False),
         'VTI': (False, True), 'triaxial': (True, True)}
CN = [Aff.sym('cnx'), Aff.sym('cny'), Aff.sym('cnz')]


# ---------------------------------------------------------------------------
def restrict_rows(ctx):
    mod = ctx.repo.mod(CORE)
    fn = mod.func('restrict')
    # index clamps pair an index with the size of ITS OWN axis
    # (`izp = min(nz - 1, iz + 1)`): with the size of another axis the upper
    # neighbour collapses to a wrong plane on grids with more cells along
    # that axis (decided on the names' axis letters; other names: no verdict)
    n_cl = 0
    for c_ in ast.walk(fn):
        if not (isinstance(c_, ast.Call) and ast.unparse(c_.func) in (
                'min', 'max') and len(c_.args) == 2):
            continue
        names_ = [x.id for a_ in c_.args for x in ast.walk(a_)
                  if isinstance(x, ast.Name)]
        dims_ = [n_ for n_ in names_ if len(n_) >= 2 and n_[0] in 'nc' and
                 n_[-1] in 'xyz' and n_[:-1].rstrip('xyz') in ('n', 'cn')]
        idx_ = [n_ for n_ in names_ if n_.startswith(('i', 'ci')) and
                n_[-1] in 'xyz']
        if len(dims_) == 1 and len(idx_) == 1:
            n_cl += 1
            ctx.check('C04.R.row', f'restrict clamp `{ast.unparse(c_)}`',
                      dims_[0][-1] == idx_[0][-1],
                      f'the index `{idx_[0]}` is clamped with the size '
                      f'`{dims_[0]}` of another axis: on grids where the two '
                      'axes have different numbers of cells the neighbour '
                      'plane is wrong and the restriction is not the '
                      'transpose of the prolongation',
                      ctx.where(mod, c_), nontrivial=False)
    if any(not ok_ for r_, c2_, ok_, _n in ctx.instances
           if r_ == 'C04.R.row' and c2_.startswith('restrict clamp')):
        return
    pn = au.params(fn)
    ctx.anchor(len(pn) == 10, 'restrict(crx, cry, crz, rx, ry, rz, wx, wy, wz, '
               'sc_dir)')
    wnames = []
    for a in range(3):
        w = pn[6 + a]
        wnames.append((w + 'l', w + '0', w + 'r'))
    table = {}
    nforms = 0
    for sc in range(7):
        fn_nodes = [CN[a] if a in NOTC[sc] else CN[a] * 2 - 1
                    for a in range(3)]

        def eshape(a, nodes):
            return tuple(nodes[t] - 1 if t == a else nodes[t]
                         for t in range(3))
        roles = {}
        for a in range(3):
            roles[pn[a]] = ('field', eshape(a, CN))
            roles[pn[3 + a]] = ('field', eshape(a, fn_nodes))
            roles[pn[6 + a]] = ('tuple', [(nm, 'coef', (CN[a],))
                                          for nm in wnames[a]])
        roles[pn[9]] = ('scalar', Aff(sc))
        it = Interp(mod.tree, 'restrict', roles,
                    {'cnx': 2, 'cny': 2, 'cnz': 2}, relname=mod.rel).run()
        for node, arr, ax, a_, n_, c in it.oob:
            ctx.fail('C04.R.bounds', f'restrict sc_dir={sc} {arr} axis {ax} '
                     f'`{au.stext(node)}`', f'subscript {a_} can leave '
                     f'[0, {n_}-1]', ctx.where(mod, node))
        # coarsened axes as seen by the kernel: fine index has stride 2
        seen_notc = set(range(3))
        per = {}
        for s in it.stores:
            per.setdefault((s.arr, tuple(sorted(
                s.ctx['classes'].items()))), []).append(s)
        for (arr, cls), sts in sorted(per.items()):
            a = pn.index(arr)
            if a > 2:
                ctx.fail('C04.R.store', f'restrict sc_dir={sc} store to {arr}',
                         'restriction stores to a fine array',
                         ctx.where(mod, sts[0].node))
                continue
            s = sts[-1]          # final value of the coarse cell
            clsd = dict(cls)
            # class of each coarse axis (by the symbol appearing in the index)
            axis_cls = []
            for t in range(3):
                x = s.idx[t]
                syms = [y for y in x.t if y in clsd]
                if syms:
                    axis_cls.append(clsd[syms[0]])
                elif x.is_const():
                    axis_cls.append('low')
                else:
                    axis_cls.append('high')
            interior = all(axis_cls[t] in ('int', 'all') for t in range(3)
                           if t != a)
            if not interior:
                continue
            # expected (P column)^T
            want = Lin()
            choices = []
            for t in range(3):
                c = s.idx[t]
                if t in NOTC[sc]:
                    choices.append([(c, None)])
                elif t == a:
                    choices.append([(c * 2, None), (c * 2 + 1, None)])
                else:
                    wl, w0, wr = wnames[t]
                    choices.append([(c * 2 - 1, (wl, c)), (c * 2, (w0, c)),
                                    (c * 2 + 1, (wr, c))])
            for combo in itertools.product(*choices):
                coef = Lin.num(1)
                for _, w in combo:
                    if w:
                        coef = coef * Lin.coef(Rat.atom(
                            (w[0], idx_key((w[1],)))))
                want = want + Lin.cell(
                    (pn[3 + a], idx_key(tuple(c for c, _ in combo)))) * coef
            w0s = {w[1] for w in wnames}

            def drop_w0(lin):
                return lin.map_coefs(lambda r: r.map_atoms(
                    lambda at: Rat.const(1) if at[0] in w0s else Rat.atom(at)))
            got = drop_w0(s.value)
            want = drop_w0(want)
            ok = got == want
            label = ','.join(f'{"xyz"[t]}={axis_cls[t]}' for t in range(3))
            ctx.check('C04.R.row', f'restrict sc_dir={sc} {arr} [{label}]', ok,
                      'row is not the transpose of (duplicate along, weighted '
                      '3-point across) prolongation; differs at '
                      + ', '.join(fmt_atom(c) for c in
                                  got.diff_first(want)[:4]) if not ok else '',
                      ctx.where(mod, s.node), obligation=True,
                      sample={'sc_dir': sc, 'coarse_edge':
                              fmt_atom((arr, idx_key(s.idx))),
                              'fine_cells': len(want.terms)})
            if all(c in ('int', 'all') for c in axis_cls):
                nforms += 1
            # which axes does the kernel treat as coarsened?
            for cell in s.value.terms:
                for t in range(3):
                    x = Aff.from_key(cell[1][t])
                    if any(k == 2 for k in x.t.values()):
                        seen_notc.discard(t)
        table[sc] = seen_notc
        ctx.check('C04.T.sc_dir', f'core.restrict branch sc_dir={sc}',
                  seen_notc == NOTC[sc],
                  f'branch keeps axes {sorted(seen_notc)} uncoarsened, table '
                  f'says {sorted(NOTC[sc])}', ctx.where(mod, fn))
    ctx.need(nforms >= 21, f'only {nforms} of the 21 interior row forms of '
             f'core.restrict were matched')
    ctx.floor('C04.R.row', 21)


# ---------------------------------------------------------------------------
def weights(ctx):
    mod = ctx.repo.mod(CORE)
    fn = mod.func('restrict_weights')
    # the weights are ratios of widths: pure arithmetic.  Clipping or
    # selecting values (a floor on the dual widths, `np.where` on a size)
    # ties them to an absolute length and they stop being the
    # linear-interpolation weights for some grids
    clip = [n for n in ast.walk(fn) if isinstance(n, ast.Call) and
            ast.unparse(n.func) in ('max', 'min', 'np.maximum', 'np.minimum',
                                    'np.clip', 'np.where', 'np.fmax',
                                    'np.fmin', 'np.round', 'round',
                                    'np.around')]
    ctx.check('C04.W.weights', 'restrict_weights is pure width arithmetic',
              not clip, 'the weights are computed with '
              f'`{ast.unparse(clip[0]) if clip else ""}`: values are clipped '
              '/ selected against a constant, so the weights are not '
              'h_a/(h_a+h_b) for every grid (not scale invariant) and the '
              'restriction is not the transpose of the prolongation',
              ctx.where(mod, clip[0] if clip else fn))
    if clip:
        return
    pn = au.params(fn)
    ctx.anchor(len(pn) == 6, 'restrict_weights(nodes, cell_centers, h, cnodes, '
               'ccell_centers, ch)')
    n = Aff.sym('n')
    roles = {pn[0]: ('coef', (n * 2 - 1,)), pn[1]: ('coef', (n * 2 - 2,)),
             pn[2]: ('coef', (n * 2 - 2,)), pn[3]: ('coef', (n,)),
             pn[4]: ('coef', (n - 1,)), pn[5]: ('coef', (n - 1,))}
    it = Interp(mod.tree, 'restrict_weights', roles, {'n': 3},
                relname=mod.rel).run()
    ret = it.retval
    ctx.anchor(ret is not None and hasattr(ret, 'items') and
               len(ret.items) == 3, 'restrict_weights returns (wl, w0, wr)')
    i = Aff.sym('i')
    it.ivals['i'] = (Aff(1), n - 2)
    it.classes['i'] = 'int'
    vals = [it.read_sym(arr, i, fn) for arr in ret.items]
    # axiom A1 + coarse nodes = every second fine node
    N = Rat.atom(('N', ()))

    def H(j):
        return Rat.atom((pn[2], idx_key((j,))))

    def node(j):
        """nodes[j] for j = 2i + k, relative to N = nodes[2i-2]."""
        k = (j - i * 2)
        if not k.is_const():
            raise AnalysisError(f'restrict_weights: node index {j} not of the '
                                f'form 2i+k')
        k = int(k.c)
        r = N
        if k >= -2:
            for m in range(-2, k):
                r = r + H(i * 2 + m)
        else:
            for m in range(k, -2):
                r = r - H(i * 2 + m)
        return r
    half = Rat.const(Fr(1, 2))

    def sub(at):
        name, ik = at
        j = Aff.from_key(ik[0]) if ik else None
        if name == pn[2]:
            return Rat.atom(at)
        if name == pn[0]:
            return node(j)
        if name == pn[1]:
            return node(j) + H(j) * half
        if name in (pn[3], pn[4], pn[5]):
            jj = j * 2          # coarse index -> fine node index
            chv = H(jj) + H(jj + 1)
            if name == pn[3]:
                return node(jj)
            if name == pn[5]:
                return chv
            return node(jj) + chv * half
        return Rat.atom(at)
    want = [H(i * 2 - 2) / (H(i * 2 - 2) + H(i * 2 - 1)), Rat.const(1),
            H(i * 2 + 1) / (H(i * 2) + H(i * 2 + 1))]
    for nm, v, w in zip(('wl', 'w0', 'wr'), vals, want):
        ok = v.ispure()
        got = v.c.map_atoms(sub) if ok else None
        ok = ok and got == w
        ctx.check('C04.W.weights', f'restrict_weights {nm}[i] (interior)', ok,
                  f'{nm}[i] is not the linear-interpolation weight of the '
                  'neighbouring fine node w.r.t. coarse node i',
                  ctx.where(mod, fn), obligation=True,
                  sample={'weight': nm, 'extracted': repr(v.c)[:200],
                          'want': repr(w)})
    ctx.floor('C04.W.weights', 3)


# ---------------------------------------------------------------------------
def sc_tables(ctx):
    sm = ctx.repo.mod(SOLVER)
    # 1. restriction(): rx, ry, rz
    fn = sm.func('restriction')
    ps = au.params(fn)
    head = []
    for st in au.body_nodoc(fn):
        if isinstance(st, ast.Assign) and 'np.diff' in ast.unparse(st.value):
            chnode = st
            break
        head.append(st)
    else:
        raise AnalysisError('anchor vanished: coarse widths in restriction()')
    strides = []
    for e in chnode.value.elts:
        txt = ast.unparse(e)
        sl = [n for n in ast.walk(e) if isinstance(n, ast.Slice)]
        ctx.anchor(len(sl) == 1 and sl[0].step is not None and
                   sl[0].lower is None and sl[0].upper is None,
                   f'every-r-th node slice in `{txt}`')
        strides.append((ast.unparse(sl[0].step), txt))
    for a, (sv, txt) in enumerate(strides):
        ctx.check('C04.M.grid', f'restriction coarse widths axis {"xyz"[a]}',
                  f'nodes_{"xyz"[a]}[::' in txt and txt.startswith('np.diff('),
                  f'coarse widths `{txt}` are not differences of every r-th '
                  'node of this axis', ctx.where(sm, chnode))
    for sc in range(7):
        fe = FiniteEval({ps[3]: sc}, where=sm.rel)
        fe.run(head)
        got = {a for a, (sv, _) in enumerate(strides) if fe.env[sv] == 1}
        bad = [fe.env[sv] for sv, _ in strides if fe.env[sv] not in (1, 2)]
        ctx.check('C04.T.sc_dir', f'restriction() strides sc_dir={sc}',
                  got == NOTC[sc] and not bad,
                  f'uncoarsened axes {sorted(got)} (strides '
                  f'{[fe.env[sv] for sv, _ in strides]}), table says '
                  f'{sorted(NOTC[sc])}', ctx.where(sm, fn),
                  sample={'sc_dir': sc, 'strides': [fe.env[sv] for sv, _
                                                     in strides]})
    # 2. prolongation guards
    pf = sm.func('prolongation')
    pps = au.params(pf)
    comp_stores = {0: [], 1: [], 2: []}
    for n in ast.walk(pf):
        if isinstance(n, ast.AugAssign) or isinstance(n, ast.Assign):
            tg = n.target if isinstance(n, ast.AugAssign) else n.targets[0]
            if isinstance(tg, ast.Subscript) and isinstance(
                    tg.value, ast.Attribute) and ast.unparse(
                        tg.value.value) == pps[0] and tg.value.attr in (
                            'fx', 'fy', 'fz'):
                comp_stores['xyz'.index(tg.value.attr[1])].append(n)
    for a in range(3):
        ctx.anchor(len(comp_stores[a]) == 3,
                   f'three stores to {pps[0]}.f{"xyz"[a]} in prolongation()')
        for n in comp_stores[a]:
            tg = n.target if isinstance(n, ast.AugAssign) else n.targets[0]
            elts = tg.slice.elts
            cons = f'prolongation `{au.stext(n)}`'
            ctx.check('C04.P.add', cons, isinstance(n, ast.AugAssign) and
                      isinstance(n.op, ast.Add),
                      'prolongation must add its correction (+=)',
                      ctx.where(sm, n))
            tr = [ast.unparse(e) for t, e in enumerate(elts) if t != a]
            ctx.check('C04.P.boundary', cons, tr == ['1:-1', '1:-1'],
                      f'transverse slices {tr} touch tangential boundary '
                      'edges (must be 1:-1)', ctx.where(sm, n))
            rhs = n.value
            ctx.check('C04.P.boundary', cons + ' rhs',
                      isinstance(rhs, ast.Subscript) and [
                          ast.unparse(e) for e in rhs.slice.elts] ==
                      ['1:-1', '1:-1'], 'interpolated values are not taken '
                      'from the interior 1:-1 window', ctx.where(sm, n))
            along = ast.unparse(elts[a]).replace(' ', '')
            gs = au.guards_of(n, pf)
            ctx.anchor(len(gs) == 1, 'sc_dir guard around a prolongation '
                       'store')
            lv = [m for m in ast.walk(elts[a]) if isinstance(m, ast.Name)]
            ctx.anchor(len(lv) == 1, 'loop variable in along-axis index')
            v = lv[0].id
            for sc in range(7):
                fe = FiniteEval({pps[2]: sc}, where=sm.rel)
                active = bool(fe.ev(gs[0][0])) == gs[0][1]
                if not active:
                    continue
                if along in (f'2*{v}', f'2*{v}+1', f'{v}*2', f'{v}*2+1',
                             f'1+2*{v}'):
                    kind = 'dup'
                elif along == v:
                    kind = 'id'
                else:
                    kind = '?'
                want = 'id' if a in NOTC[sc] else 'dup'
                ctx.check('C04.T.sc_dir', f'prolongation f{"xyz"[a]} index '
                          f'`{along}` sc_dir={sc}', kind == want,
                          f'along-axis index `{along}` under sc_dir={sc}: '
                          f'{"identity" if want == "id" else "duplication"} '
                          'expected', ctx.where(sm, n))
        # both children written when coarsened
        for sc in range(7):
            idxs = set()
            for n in comp_stores[a]:
                gs = au.guards_of(n, pf)
                fe = FiniteEval({pps[2]: sc}, where=sm.rel)
                if bool(fe.ev(gs[0][0])) == gs[0][1]:
                    tg = n.target if isinstance(n, ast.AugAssign) \
                        else n.targets[0]
                    idxs.add(ast.unparse(tg.slice.elts[a]).replace(' ', ''))
            want = 1 if a in NOTC[sc] else 2
            ctx.check('C04.P.children', f'prolongation f{"xyz"[a]} '
                      f'sc_dir={sc}', len(idxs) == want,
                      f'{len(idxs)} along-axis targets {sorted(idxs)}, '
                      f'expected {want}', ctx.where(sm, pf))
    # transverse interpolator arguments
    rgp = [n for n in ast.walk(pf) if isinstance(n, ast.Call) and
           ast.unparse(n.func) == 'RegularGridProlongator']
    if len(rgp) != 3:
        # constructions behind a module-level helper: resolve the wrapper
        rgp = []
        for n in ast.walk(pf):
            if isinstance(n, ast.Call) and isinstance(n.func, ast.Name) and \
                    n.func.id in {f.name for f in sm.tree.body
                                  if isinstance(f, ast.FunctionDef)}:
                w = sm.func(n.func.id)
                ctor = [c for c in ast.walk(w) if isinstance(c, ast.Call) and
                        ast.unparse(c.func) == 'RegularGridProlongator']
                if len(ctor) != 1:
                    continue
                wps = au.params(w)
                if [ast.unparse(x) for x in ctor[0].args] != wps:
                    continue
                rets = [r for r in ast.walk(w) if isinstance(r, ast.Return)]
                direct = all(r.value is ctor[0] for r in rets)
                ok = direct
                why = ''
                if not direct:
                    # memoised: the key must determine every node vector
                    keys = find('_k_ = _t_', w)
                    kt = [ast.parse(b['_t_'], mode='eval').body
                          for n_, b in keys]
                    kt = [t for t in kt if isinstance(t, ast.Tuple)]
                    full = set()
                    for t in kt:
                        for e in t.elts:
                            txt = ast.unparse(e).replace(' ', '')
                            for p_ in wps:
                                if txt in (f'{p_}.tobytes()', f'tuple({p_})',
                                           f'{p_}.data.tobytes()',
                                           f'tuple({p_}.tolist())'):
                                    full.add(p_)
                    ok = set(wps) <= full
                    why = (f'`{w.name}` returns a remembered interpolator '
                           'whose key does not contain the node vectors '
                           f'{sorted(set(wps) - full)} themselves: another '
                           'grid with the same size and extent gets the '
                           'weights of the first')
                ctx.check('C04.P.transverse', f'prolongation: interpolator '
                          f'via `{w.name}` belongs to the nodes of this call',
                          ok, why, ctx.where(sm, w))
                rgp.append(n)
    ctx.anchor(len(rgp) == 3, 'three RegularGridProlongator constructions')
    want_args = [('y', 'z'), ('x', 'z'), ('x', 'y')]
    rgp.sort(key=lambda c: c.lineno)
    for a, c in enumerate(rgp):
        args = [ast.unparse(x) for x in c.args]
        t1, t2 = want_args[a]
        ok = len(args) == 4 and args[0].endswith(f'nodes_{t1}') and \
            args[1].endswith(f'nodes_{t2}') and args[2].endswith(
                f'nodes_{t1}') and args[3].endswith(f'nodes_{t2}') and \
            args[0].split('.')[0] == args[1].split('.')[0] != \
            args[2].split('.')[0] == args[3].split('.')[0]
        ctx.check('C04.P.transverse', f'prolongation f{"xyz"[a]} '
                  'interpolator nodes', ok, f'interpolator built from {args}; '
                  f'component {"xyz"[a]} is interpolated across '
                  f'({t1}, {t2}) from coarse to fine nodes',
                  ctx.where(sm, c), sample={'args': args})
    # 3. _get_restriction_weights
    gw = sm.func('_get_restriction_weights')
    gps = au.params(gw)
    wcalls = [c for c in au.calls(gw) if ast.unparse(c.func) ==
              'core.restrict_weights']
    if len(wcalls) != 3:
        # a wrapper around the kernel that does not always return the
        # kernel's weights is a violation, not a vanished anchor
        for h in ast.walk(gw):
            if isinstance(h, ast.FunctionDef) and h is not gw:
                rets = [r for r in au.walk_local(h)
                        if isinstance(r, ast.Return)]
                inner = [r for r in rets if isinstance(r.value, ast.Call) and
                         ast.unparse(r.value.func) == 'core.restrict_weights']
                other = [r for r in rets if r not in inner]
                if inner and other:
                    gs = [ast.unparse(t) for t, _ in au.guards_of(other[0], h)]
                    ctx.fail('C04.W.callsite', '_get_restriction_weights: '
                             f'wrapper `{h.name}`', f'`{h.name}` returns '
                             f'`{au.stext(other[0])[:60]}` instead of the '
                             f'weights of core.restrict_weights under {gs}: '
                             'restriction no longer uses the weights the '
                             'prolongation is the transpose of for the grids '
                             'that condition accepts', ctx.where(sm, other[0]))
                    wcalls = []
                    break
        else:
            ctx.anchor(False, 'three restrict_weights calls')
    for c in wcalls:
        args = [ast.unparse(x) for x in c.args]
        if len(args) != 6 or any(isinstance(x, ast.Starred) for x in c.args):
            ctx.fail('C04.W.callsite', '_get_restriction_weights: call of '
                     'the weights kernel', f'arguments {args} are not the '
                     'six (fine nodes, centres, widths, coarse nodes, '
                     'centres, widths) of one axis', ctx.where(sm, c))
            continue
        axes = {x[-1] for x in args[:2] + args[3:5]} | {
            'xyz'[int(x[-2])] for x in (args[2], args[5])}
        ctx.anchor(len(axes) == 1, f'one axis per restrict_weights call: '
                   f'{args}')
        a = 'xyz'.index(axes.pop())
        ok = args[0].startswith(gps[0] + '.nodes_') and args[1].startswith(
            gps[0] + '.cell_centers_') and args[2].startswith(
                gps[0] + '.h[') and args[3].startswith(gps[1] + '.nodes_') \
            and args[4].startswith(gps[1] + '.cell_centers_') and \
            args[5].startswith(gps[1] + '.h[')
        ctx.check('C04.W.callsite', f'_get_restriction_weights axis '
                  f'{"xyz"[a]}', ok, f'arguments {args} are not (fine nodes, '
                  'centres, widths, coarse nodes, centres, widths)',
                  ctx.where(sm, c))
        gs = au.guards_of(c, gw)
        ctx.anchor(len(gs) == 1, 'guard of a restrict_weights call')
        for sc in range(7):
            fe = FiniteEval({gps[2]: sc}, where=sm.rel)
            active = bool(fe.ev(gs[0][0])) == gs[0][1]
            ctx.check('C04.T.sc_dir', f'_get_restriction_weights axis '
                      f'{"xyz"[a]} sc_dir={sc}', active == (a not in NOTC[sc]),
                      f'real weights {"used" if active else "not used"} but '
                      f'axis is {"not " if a in NOTC[sc] else ""}coarsened',
                      ctx.where(sm, c))
    # 5. _restrict_model_parameters
    rm = sm.func('_restrict_model_parameters')
    rps = au.params(rm)
    for sc in range(7):
        # collect the terms summed into `out` on the path taken for this sc
        fe_terms = []

        def walk(stmts):
            for st in stmts:
                if isinstance(st, ast.If):
                    fe = FiniteEval({rps[1]: sc}, where=sm.rel)
                    walk(st.body if fe.ev(st.test) else st.orelse)
                elif isinstance(st, (ast.Assign, ast.AugAssign)):
                    if isinstance(st, ast.AugAssign) and not isinstance(
                            st.op, ast.Add):
                        raise AnalysisError('model restriction: non-additive '
                                            'update')
                    terms = []

                    def flat(n):
                        if isinstance(n, ast.BinOp) and isinstance(
                                n.op, ast.Add):
                            flat(n.left)
                            flat(n.right)
                        else:
                            terms.append(n)
                    flat(st.value)
                    fe_terms.extend(terms)
                elif isinstance(st, ast.Return) or au.is_docstring(st):
                    pass
                else:
                    raise AnalysisError('model restriction: unsupported '
                                        f'statement `{au.stext(st)}`')
        walk(rm.body)
        combos = []
        ok = True
        for t in fe_terms:
            if not (isinstance(t, ast.Subscript) and ast.unparse(t.value) ==
                    rps[0] and isinstance(t.slice, ast.Tuple) and
                    len(t.slice.elts) == 3):
                ok = False
                continue
            kinds = []
            for e in t.slice.elts:
                tx = ast.unparse(e).replace(' ', '')
                kinds.append({':': 'all', ':-1:2': 'even', '1::2': 'odd',
                              '::2': 'even'}.get(tx, '?' + tx))
            combos.append(tuple(kinds))
        coars = [a for a in range(3) if a not in NOTC[sc]]
        want = set()
        for ch in itertools.product(('even', 'odd'), repeat=len(coars)):
            k = ['all'] * 3
            for a, c in zip(coars, ch):
                k[a] = c
            want.add(tuple(k))
        good = ok and len(combos) == len(set(combos)) and set(combos) == want
        ctx.check('C04.M.children', f'_restrict_model_parameters sc_dir={sc}',
                  good, f'sums children {sorted(combos)}; each of the '
                  f'{len(want)} children of the coarsened axes '
                  f'{[" xyz"[a + 1] for a in coars]} must appear exactly once',
                  ctx.where(sm, rm), obligation=True,
                  sample={'sc_dir': sc, 'children': len(combos)})
    # 6. _current_sc_dir
    cs = sm.func('_current_sc_dir')
    cps = au.params(cs)
    for sc in range(4):
        for pat in range(8):
            blocked = {a for a in range(3) if pat >> a & 1}
            for kind in ('odd', 'two'):
                shape = [(3 if kind == 'odd' else 2) if a in blocked else 4
                         for a in range(3)]
                fe = FiniteEval({cps[0]: sc, f'{cps[1]}.shape_cells': shape},
                                where=sm.rel)
                r = fe.call(cs)
                S = blocked | ({sc - 1} if sc else set())
                if len(S) == 3:
                    continue
                ctx.check('C04.T.sc_dir', f'_current_sc_dir sc_dir={sc} '
                          f'shape={shape}', r in NOTC and NOTC[r] == S,
                          f'returns {r} (uncoarsened {sorted(NOTC.get(r, []))})'
                          f'; blocked/requested axes are {sorted(S)}',
                          ctx.where(sm, cs),
                          sample={'sc_dir': sc, 'shape': shape, 'result': r})
    # 7. MGParameters._max_level clevel table
    ml = sm.method('MGParameters', '_max_level')
    arr = [n for n in ast.walk(ml) if isinstance(n, ast.Assign) and
           ast.unparse(n.targets[0]) == 'self.clevel']
    ctx.anchor(len(arr) == 1 and isinstance(arr[0].value, ast.Call) and
               isinstance(arr[0].value.args[0], ast.List),
               'self.clevel = np.array([...]) in _max_level')
    for sc, e in enumerate(arr[0].value.args[0].elts):
        used = {int(ast.unparse(s.slice)) for s in ast.walk(e)
                if isinstance(s, ast.Subscript)}
        ctx.check('C04.T.sc_dir', f'_max_level clevel[{sc}]',
                  ast.unparse(e).startswith('max(') and
                  used == set(range(3)) - NOTC[sc],
                  f'coarsest level of sc_dir={sc} is the max over axes '
                  f'{sorted(used)}, coarsened axes are '
                  f'{sorted(set(range(3)) - NOTC[sc])}', ctx.where(sm, e))
    ctx.floor('C04.T.sc_dir', 7 + 7 + 21 + 21 + 4 + 40)
    ctx.floor('C04.M.children', 7)

    # restriction(): call of core.restrict, coarse fields, aliasing
    rc = au.calls(fn, 'core.restrict')
    ctx.anchor(len(rc) == 1, 'core.restrict call in restriction()')
    args = [ast.unparse(x) for x in rc[0].args]
    want_tail = ['fx', 'fy', 'fz']
    ok = len(args) == 10 and [x.split('.')[-1] for x in args[:3]] == \
        want_tail and [x.split('.')[-1] for x in args[3:6]] == want_tail \
        and args[9] == ps[3] and len({x.split('.')[0] for x in args[:3]}) == 1 \
        and {x.split('.')[0] for x in args[3:6]} == {ps[2]}
    ctx.check('C04.R.callsite', 'restriction -> core.restrict', ok,
              f'arguments {args} are not (coarse fx,fy,fz, residual fx,fy,fz, '
              'wx, wy, wz, sc_dir)', ctx.where(sm, rc[0]))
    wa = [n for n in ast.walk(fn) if isinstance(n, ast.Assign) and
          isinstance(n.value, ast.Call) and ast.unparse(n.value.func) ==
          '_get_restriction_weights']
    ctx.anchor(len(wa) == 1, '_get_restriction_weights call')
    ctx.check('C04.R.callsite', 'restriction weights order',
              ast.unparse(wa[0].targets[0]).replace(' ', '') in (
                  f'({args[6]},{args[7]},{args[8]})',
                  f'{args[6]},{args[7]},{args[8]}'),
              'weights are unpacked in another order than they are passed',
              ctx.where(sm, wa[0]))
    newf = [n for n in ast.walk(fn) if isinstance(n, ast.Assign) and
            isinstance(n.value, ast.Call) and ast.unparse(n.value.func) ==
            'fields.Field']
    ctx.anchor(len(newf) == 2, 'two coarse fields created in restriction()')
    for n in newf:
        kws = {k.arg: ast.unparse(k.value) for k in n.value.keywords}
        ok = len(n.value.args) == 1 and kws.get('dtype') == \
            f'{ps[1]}.field.dtype' and 'frequency' in kws
        ctx.check('C04.M.fields', f'restriction `{au.stext(n)}`', ok,
                  'coarse field is not a zero field on the coarse grid with '
                  'the fine dtype', ctx.where(sm, n))
    # coarse eta aliasing (T-aniso)
    from ..core.template import find as _find
    cmf = _find(f'_c_ = VolumeModel({ps[0]}.case, _g_)', fn)
    ctx.anchor(len(cmf) == 1, 'coarse model object in restriction()')
    cmn = cmf[0][1]['_c_']
    for comp, idx in (('eta_y', 0), ('eta_z', 1)):
        sts = [n for n in ast.walk(fn) if isinstance(n, ast.Assign) and
               ast.unparse(n.targets[0]) == f'{cmn}.{comp}']
        ctx.anchor(len(sts) == 2, f'two assignments of {cmn}.{comp}')
        for case, flags in ANISO.items():
            chosen = []
            for n in sts:
                gs = au.guards_of(n, fn)
                fe = FiniteEval({f'{ps[0]}.case': case}, where=sm.rel)
                if all(bool(fe.ev(t)) == pol for t, pol in gs):
                    chosen.append(ast.unparse(n.value))
            want = (f'_restrict_model_parameters({ps[0]}.{comp}, {ps[3]})'
                    if flags[idx] else f'{cmn}.eta_x')
            ctx.check('C04.M.aniso', f'restriction cmodel.{comp} case {case}',
                      chosen == [want], f'coarse {comp} is {chosen}, the '
                      f'anisotropy table says `{want}`', ctx.where(sm, sts[0]))
    for comp in ('eta_x', 'zeta'):
        sts = [ast.unparse(n.value) for n in ast.walk(fn)
               if isinstance(n, ast.Assign) and
               ast.unparse(n.targets[0]) == f'{cmn}.{comp}']
        ctx.check('C04.M.aniso', f'restriction cmodel.{comp}', sts == [
            f'_restrict_model_parameters({ps[0]}.{comp}, {ps[3]})'],
            f'coarse {comp} is {sts}', ctx.where(sm, fn))


def prolongator_weights(ctx):
    from ..core.template import find, has
    sm = ctx.repo.mod(SOLVER)
    f = sm.method('RegularGridProlongator', '_set_edges_and_weights')
    nd = find('_l_.append((_x_ - _g_[_i_]) / (_g_[_i_ + 1] - _g_[_i_]))', f)
    ctx.check('C04.P.weights', 'RegularGridProlongator normalised distance',
              len(nd) == 1, 'normalised distance is not '
              '(x - g[i])/(g[i+1] - g[i])', ctx.where(sm, f),
              obligation=True, sample={'match': nd[0][1] if nd else None})
    wh = [n for n in ast.walk(f) if isinstance(n, ast.Call) and
          ast.unparse(n.func) == 'np.where']
    ctx.anchor(len(wh) == 1 and len(wh[0].args) == 3, 'np.where weight choice')
    cond, a, b = wh[0].args
    yi = sp.Symbol('yi')
    names = [x for x in (a, b) if isinstance(x, ast.Name)]
    ctx.anchor(len(names) == 1, 'normalised distance variable in np.where')
    lf2 = Lifter({names[0].id: yi}, {}, sm.rel, strict=True)
    la, lb = lf2.lift(a), lf2.lift(b)
    lower_sel = isinstance(cond, ast.Compare) and isinstance(
        cond.ops[0], ast.Eq)
    ctx.check('C04.P.weights', 'RegularGridProlongator corner weights',
              equal(la + lb, 1) and equal(lb, yi) and lower_sel,
              f'weights `{la}` (lower) and `{lb}` (upper) must be 1-y and y '
              '(sum to one)', ctx.where(sm, wh[0]), obligation=True,
              sample={'lower': str(la), 'upper': str(lb)})
    # the selector compares the corner index with the lower index
    if nd and lower_sel:
        ivar = nd[0][1]['_i_']
        zips = [n for n in ast.walk(f) if isinstance(n, ast.For) and
                isinstance(n.iter, ast.Call) and ast.unparse(
                    n.iter.func) == 'zip' and isinstance(n.target, ast.Tuple)
                and any(wh[0] is x for x in ast.walk(n))]
        ctx.check('C04.P.weights', 'RegularGridProlongator lower corner '
                  'selected by the interval index', len(zips) == 1 and
                  len(zips[0].target.elts) == 3 and {ast.unparse(
                      cond.left), ast.unparse(cond.comparators[0])} == {
                      zips[0].target.elts[0].id, zips[0].target.elts[1].id},
                  'weight 1-y is not selected where the corner index equals '
                  'the lower interval index', ctx.where(sm, wh[0]))
    # clamp of the interval index (A3)
    ok = False
    ss = find('_i_ = np.searchsorted(_g_, _x_) - 1', f)
    if ss:
        i_, g_ = ss[0][1]['_i_'], ss[0][1]['_g_']
        ok = has(f'{i_}[{i_} < 0] = 0', f) and has(
            f'{i_}[{i_} > {g_}.size - 2] = {g_}.size - 2', f)
    ctx.check('C04.P.weights', 'RegularGridProlongator interval index', ok,
              'interval index is not searchsorted-1 clamped to [0, size-2]',
              ctx.where(sm, f))
    call = sm.method('RegularGridProlongator', '__call__')
    cp = au.params(call)
    ctx.check('C04.P.weights', 'RegularGridProlongator application',
              has(f'_r_ += np.asarray({cp[1]}[_e_]) * self.weight[_n_, :]',
                  call), 'interpolation is not sum over corners of value * '
              'weight', ctx.where(sm, call))


def mesh_axiom(ctx):
    """A1 is read off BaseMesh.__init__ (the axiom's source pattern)."""
    from ..core.template import find, has
    me = ctx.repo.mod('emg3d/meshes.py')
    init = me.method('BaseMesh', '__init__')
    ip = au.params(init)
    for a, ax in enumerate('xyz'):
        ok = has(f'self.nodes_{ax} = np.r_[0.0, self.h[{a}].cumsum()] + '
                 f'self.origin[{a}]', init) and has(
            f'self.cell_centers_{ax} = (self.nodes_{ax}[1:] + '
            f'self.nodes_{ax}[:-1]) / 2', init)
        ctx.check('C04.W.mesh_axiom', f'BaseMesh nodes / centres axis {ax}',
                  ok, 'nodes are not origin + cumulative widths, or cell '
                  'centres not the node midpoints (axiom A1 used by the '
                  'weight identity)', ctx.where(me, init), obligation=True)
    ctx.check('C04.W.mesh_axiom', 'BaseMesh widths and origin stored',
              has(f'self.origin = np.array({ip[2]})', init) and all(
                  has(f'np.array({ip[1]}[{a}], dtype=float)', init)
                  for a in range(3)),
              'BaseMesh does not store the given widths / origin',
              ctx.where(me, init))
    sm = ctx.repo.mod(SOLVER)
    fn = sm.func('restriction')
    ps = au.params(fn)
    cg = find(f'_cg_ = meshes.BaseMesh(_ch_, {ps[0]}.grid.origin)', fn)
    ok = len(cg) == 1
    if ok:
        ok = has(f'{cg[0][1]["_ch_"]} = [np.diff({ps[0]}.grid.nodes_x[::__]), '
                 f'np.diff({ps[0]}.grid.nodes_y[::__]), '
                 f'np.diff({ps[0]}.grid.nodes_z[::__])]', fn)
    ctx.check('C04.M.grid', 'restriction: coarse grid from the fine origin '
              'and every r-th node', ok, 'coarse grid is not BaseMesh('
              'differences of every r-th fine node, fine origin)',
              ctx.where(sm, fn))


def run(ctx):
    ctx.explanation = (
        'core.restrict is abstractly interpreted for each of the 7 sc_dir '
        'branches (loop body once per first/generic/last class, no grid loop '
        'executed); each interior row is compared as a polynomial identity '
        'with the transpose of the prolongation structure; restrict_weights '
        'is interpreted symbolically and its generic weights are reduced, '
        'with the mesh axiom nodes[m+1]-nodes[m]=h[m], to the linear '
        'interpolation weights; the seven interpretations of sc_dir are '
        'evaluated over the finite code domain and compared.')
    ctx.trusted = [
        'A1: nodes[m+1]-nodes[m]=h[m], cell_centers[m]=nodes[m]+h[m]/2 '
        '(BaseMesh), coarse nodes = every second fine node (nodes[::2])',
        'A3: searchsorted-1 clamped is the containing interval',
        'numpy slice semantics a[:-1:2], a[1::2], a[1:-1]',
        'exact rational arithmetic of the checker; sympy for two formulas']
    restrict_rows(ctx)
    weights(ctx)
    mesh_axiom(ctx)
    sc_tables(ctx)
    prolongator_weights(ctx)
