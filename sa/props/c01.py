"""C01 - reported solver success certifies the returned field.

Rules (DESIGN.md 4/C01):
  R1  every store of "CONVERGED" carries a certificate
        (a) tolerance guard  L < tol * l2_refe  with L a residual of the
            returned field and no field writer between residual and guard
        (b) zero source: zeros written *through* the caller's object
        (c) scipy info == 0 arm of the Krylov call with rtol = var.tol
  R2  exit status / info figures derive from that bookkeeping; var.l2 is FRESH
      (describes the returned field) at every return of solve()
  R3  the caller-supplied field is never re-bound
  R4  PEC: 12 boundary slices zeroed; no solver-side writer stores to a
      tangential boundary edge
  R5  dtype propagation and dtype guard
  R6  failure is always reported
"""
import ast

from ..core import astutil as au
from ..core.cfg import CFG, solve_forward
from ..core.effects import Summaries, root_name, store_targets
from ..core.report import AnalysisError
from ..core.tables import FiniteEval
from ..expr.lift import Lifter, straight_paths

LEVEL = 'other'
SOLVER = 'emg3d/solver.py'
CORE = 'emg3d/core.py'
MSG = 'CONVERGED'


def is_residual_call(n, field=None):
    """residual(model, sfield, <field>, True)"""
    if not (isinstance(n, ast.Call) and ast.unparse(n.func) == 'residual'):
        return False
    args = list(n.args)
    norm = None
    if len(args) == 4:
        norm = args[3]
    for kw in n.keywords:
        if kw.arg == 'norm':
            norm = kw.value
    if not (isinstance(norm, ast.Constant) and norm.value is True):
        return False
    if len(args) < 3:
        return False
    if field is not None and ast.unparse(args[2]) != field:
        return False
    return True


def tol_guard(test):
    """`L < a.tol * b.l2_refe` (or <=, product in either order) -> L text."""
    if not (isinstance(test, ast.Compare) and len(test.ops) == 1 and
            isinstance(test.ops[0], (ast.Lt, ast.LtE))):
        return None
    rhs = test.comparators[0]
    if not (isinstance(rhs, ast.BinOp) and isinstance(rhs.op, ast.Mult)):
        return None
    attrs = set()
    for x in (rhs.left, rhs.right):
        if isinstance(x, ast.Attribute):
            attrs.add(x.attr)
    if attrs != {'tol', 'l2_refe'}:
        return None
    return test.left


def zero_guard(test):
    """`x.l2_refe < <tiny>`"""
    return (isinstance(test, ast.Compare) and len(test.ops) == 1 and
            isinstance(test.ops[0], (ast.Lt, ast.LtE)) and
            isinstance(test.left, ast.Attribute) and
            test.left.attr == 'l2_refe' and
            'tiny' in ast.unparse(test.comparators[0]))


class SolverModel:
    def __init__(self, ctx):
        self.ctx = ctx
        self.sm = ctx.repo.mod(SOLVER)
        self.cm = ctx.repo.mod(CORE)
        self.fm = ctx.repo.mod('emg3d/fields.py')
        self.summ = Summaries({'': self.sm, 'core': self.cm})
        self.solve = self.sm.func('solve')
        self.mg = self.sm.func('multigrid')
        self.kry = self.sm.func('krylov')
        self.term = self.sm.func('_terminate')
        # the in/out parameter of solve(): efield = kwargs.pop('efield', None)
        pops = [n for n in self.solve.body if isinstance(n, ast.Assign) and
                isinstance(n.value, ast.Call) and
                ast.unparse(n.value.func) == 'kwargs.pop' and n.value.args and
                isinstance(n.value.args[0], ast.Constant) and
                n.value.args[0].value == 'efield']
        ctx.anchor(len(pops) == 1, "efield = kwargs.pop('efield', None) in "
                   "solve()")
        self.pop = pops[0]
        self.ef = ast.unparse(pops[0].targets[0])
        # the parameter object: var = MGParameters(...)
        va = [n for n in self.solve.body if isinstance(n, ast.Assign) and
              isinstance(n.value, ast.Call) and
              ast.unparse(n.value.func) == 'MGParameters']
        ctx.anchor(len(va) == 1, 'var = MGParameters(...) in solve()')
        self.var = ast.unparse(va[0].targets[0])
        # the `if efield is None` split
        split = [n for n in self.solve.body if isinstance(n, ast.If) and
                 ast.unparse(n.test) == f'{self.ef} is None']
        ctx.anchor(len(split) == 1, 'if efield is None: ... else: ... in '
                   'solve()')
        self.split = split[0]

    def writes_field(self, fn, stmt, name):
        return self.summ.writes(fn, '', name, stmt)


# ---------------------------------------------------------------------------
def level_name(fn):
    from ..core.template import find
    f = find("_l_ = kwargs.get('level', 0)", fn)
    if len(f) != 1:
        raise AnalysisError("anchor vanished: level = kwargs.get('level', 0) "
                            'in multigrid()')
    return f[0][1]['_l_']


def level0_prune(cfg, fn):
    """Edge pruning for multigrid specialised to level == 0."""
    lv = level_name(fn)

    def prune(a, b, lab):
        if a.kind == 'test' and lab in ('T', 'F'):
            try:
                v = FiniteEval({lv: 0}).ev(a.ast)
            except AnalysisError:
                return False
            except Exception:
                return False
            return bool(v) != (lab == 'T')
        return False
    return prune


def rule_R1(ctx, M):
    sm = M.sm
    sites = [n for n in ast.walk(sm.tree) if isinstance(n, ast.Assign) and
             isinstance(n.value, ast.Constant) and n.value.value == MSG and
             any(isinstance(t, ast.Attribute) and t.attr == 'exit_message'
                 for t in n.targets)]
    for site in sites:
        fn = au.enclosing_func(site)
        qn = au.qualname(site)
        guards = au.guards_of(site, fn)
        cons = f'{qn} `{au.stext(site)}` under ' + ' and '.join(
            ('' if pol else 'not ') + f'({ast.unparse(t)[:50]})'
            for t, pol in guards[-2:])
        where = ctx.where(sm, site)
        cert = None
        # (a) tolerance guard ---------------------------------------------------
        tg = [(t, pol) for t, pol in guards if tol_guard(t) is not None]
        zg = [(t, pol) for t, pol in guards if zero_guard(t)]
        if tg and tg[-1][1] is True:
            cert = 'a'
            L = tol_guard(tg[-1][0])
            ok, why = certify_tolerance(ctx, M, fn, tg[-1][0], L, site)
            ctx.check('C01.R1.success_site', cons, ok, why, where,
                      sample={'site': qn, 'certificate': 'tolerance guard '
                              + ast.unparse(tg[-1][0])})
        elif zg and zg[-1][1] is True:
            cert = 'b'
            body = au.enclosing(site, ast.If)
            inplace = []
            for st in body.body:
                for t in store_targets(st):
                    if isinstance(t, (ast.Attribute, ast.Subscript)) and \
                            root_name(t) == M.ef and isinstance(
                                st.value, ast.Constant) and \
                            st.value.value in (0, 0.0):
                        inplace.append(st)
            ok = bool(inplace) and fn is M.solve
            ctx.check('C01.R1.success_site', 'solve zero-source arm', ok,
                      'zero source reports CONVERGED but zeros are not '
                      'written through the field object the caller supplied',
                      where, sample={'site': qn, 'certificate':
                                     'zero source + in-place zero write'})
        elif fn is M.kry:
            # SciPy's info == 0 is no certificate for the returned field: the
            # Krylov solvers test a recursively updated residual vector, which
            # drifts from b - A x (bicgstab: CONVERGED with a true relative
            # residual of 4e-3 at tol 1e-6).  Success in krylov() needs the
            # tolerance test on the recomputed residual, i.e. certificate (a).
            cert = 'c'
            ok, why = certify_krylov(ctx, M, site, guards)
            ctx.check('C01.R1.success_site', cons, False,
                      'CONVERGED rests on the return code of the SciPy '
                      'solver alone' + (f' ({why})' if not ok else '') +
                      ': that code refers to the solver\'s recursively '
                      'updated residual, not to b - A x of the returned '
                      'field; the recomputed residual must pass the '
                      'tolerance test', where,
                      sample={'site': qn, 'certificate':
                              'scipy info == 0 only'})
        if cert is None:
            ctx.fail('C01.R1.success_site', cons, 'success is reported '
                     'without a tolerance guard, zero-source or scipy '
                     'info==0 certificate', where)
    ctx.floor('C01.R1.success_site', 4)


def certify_tolerance(ctx, M, fn, test, L, site):
    """Every reaching definition of L is a residual of the field with no
    field writer between the residual and the guard."""
    sm = M.sm
    Ltxt = ast.unparse(L)
    ps = au.params(fn)
    if isinstance(L, ast.Name) and L.id in ps:
        # follow one call edge: all call sites bind a fresh residual
        pos = ps.index(L.id)
        sites = [c for c in au.calls(sm.tree, fn.name)]
        if not sites:
            return False, f'{fn.name} is never called'
        for c in sites:
            caller = au.enclosing_func(c)
            arg = c.args[pos] if pos < len(c.args) else None
            if not isinstance(arg, ast.Name):
                return False, (f'call at line {c.lineno} passes '
                               f'`{ast.unparse(arg) if arg else "?"}` as the '
                               'error norm (not a residual variable)')
            ok, why = fresh_at(ctx, M, caller, au.enclosing_stmt(c), arg.id)
            if not ok:
                return False, f'{caller.name} line {c.lineno}: {why}'
        return True, ''
    stmt = au.enclosing(site, ast.If)
    # the guard statement itself
    gstmt = site
    while not (isinstance(gstmt, ast.If) and gstmt.test is test):
        gstmt = au.parent(gstmt)
        if gstmt is None:
            return False, 'guard statement not found'
    return fresh_at(ctx, M, fn, gstmt, Ltxt)


def fresh_at(ctx, M, fn, use_stmt, Ltxt):
    """All definitions of Ltxt reaching use_stmt are residual(.., field, True)
    and no writer of that field lies between definition and use."""
    cfg = CFG(fn)
    prune = level0_prune(cfg, fn) if fn is M.mg else None
    use = cfg.node_of(use_stmt)

    def is_def(n):
        st = n.ast
        return any(ast.unparse(t) == Ltxt for t in store_targets(st)) \
            if isinstance(st, (ast.Assign, ast.AugAssign)) else False

    # reaching definitions (ids) at `use`
    def transfer(n, s, lab):
        if n.kind == 'stmt' and is_def(n):
            return [n.id]
        return [s]
    inn = solve_forward(cfg, [-1], transfer, prune)
    defs = inn[use]
    if not defs:
        return False, 'guard unreachable'
    for d in defs:
        if d == -1:
            return False, f'{Ltxt} may be undefined/initial at the guard'
        dn = cfg.nodes[d]
        val = dn.ast.value if isinstance(dn.ast, ast.Assign) else None
        if not is_residual_call(val):
            return False, (f'{Ltxt} defined by `{au.stext(dn.ast)}` (line '
                           f'{dn.lineno}), not by residual(.., True)')
        field = ast.unparse(val.args[2])
        if fn is M.solve and field != M.ef:
            return False, f'residual of `{field}`, not of the returned field'
        if fn is not M.solve and field not in au.params(fn):
            return False, f'residual of `{field}`, not of the field parameter'
        between = cfg.reachable_between(dn, use, prune, avoid=[dn])
        for n in between:
            if n is use or n.ast is None:
                continue
            if n.kind in ('stmt', 'for') and M.writes_field(fn, n.ast, field):
                return False, (f'`{au.stext(n.ast)}` (line {n.lineno}) '
                               f'writes {field} between the residual at line '
                               f'{dn.lineno} and the success test')
    return True, ''


def certify_krylov(ctx, M, site, guards):
    kry = M.kry
    calls = [n for n in ast.walk(kry) if isinstance(n, ast.Call) and
             ast.unparse(n.func).startswith('getattr(sp.sparse.linalg')]
    if len(calls) != 1:
        raise AnalysisError('anchor vanished: scipy solver call in krylov()')
    call = calls[0]
    st = au.enclosing_stmt(call)
    if not (isinstance(st, ast.Assign) and isinstance(st.targets[0], ast.Tuple)
            and len(st.targets[0].elts) == 2):
        raise AnalysisError('anchor vanished: `field, info = solver(...)`')
    info = ast.unparse(st.targets[0].elts[1])
    # site must be in the info == 0 arm
    kws = {k.arg: k.value for k in call.keywords}
    mx = ast.unparse(kws['maxiter']) if 'maxiter' in kws else None
    env_ok = []
    for v in (-1, 0, 1):
        fe = FiniteEval({info: v, f'{ast.unparse(st.targets[0].elts[0])}': 0,
                         **({mx: 5} if mx else {})})
        try:
            active = all(bool(fe.ev(t)) == pol for t, pol in guards)
        except AnalysisError as e:
            return False, f'success arm guarded by a non-info test ({e})'
        env_ok.append(active)
    if env_ok != [False, True, False]:
        return False, (f'CONVERGED is stored for info in '
                       f'{[v for v, a in zip((-1, 0, 1), env_ok) if a]}, '
                       'scipy reports success only with info == 0')
    # scipy returns info = maxiter when the iteration limit is reached: with
    # maxiter == 0 that is info == 0 although nothing was iterated
    if mx is not None:
        fe = FiniteEval({info: 0, f'{ast.unparse(st.targets[0].elts[0])}': 0,
                         mx: 0})
        if all(bool(fe.ev(t)) == pol for t, pol in guards):
            return False, (f'with {mx} == 0 scipy returns info == maxiter == 0 '
                           'without iterating; the success arm does not '
                           'exclude that case (CONVERGED with the unchanged '
                           'start field)')
    ps = au.params(kry)
    if ast.unparse(kws.get('b', ast.Constant(None))) != f'{ps[1]}.field':
        return False, 'right-hand side of the Krylov system is not the source'
    star = [k.value for k in call.keywords if k.arg is None]
    tol_ok = any(isinstance(s, ast.Dict) and len(s.keys) == 1 and
                 ast.unparse(s.keys[0]) == 'TOL' and
                 ast.unparse(s.values[0]).endswith('.tol') for s in star) \
        or any(k in kws and ast.unparse(kws[k]).endswith('.tol')
               for k in ('tol', 'rtol'))
    if not tol_ok:
        return False, 'relative tolerance of the Krylov call is not var.tol'
    at = kws.get('atol')
    if at is not None and not (isinstance(at, ast.Constant) and
                               isinstance(at.value, (int, float)) and
                               at.value <= 1e-20):
        return False, ('absolute tolerance of the Krylov call can satisfy '
                       'the test before the relative one')
    if 'A' not in kws or not isinstance(kws['A'], ast.Name):
        return False, 'system operator keyword missing'
    aname = kws['A'].id
    adef = [n for n in ast.walk(kry) if isinstance(n, ast.Assign) and
            ast.unparse(n.targets[0]) == aname]
    mv = None
    for a in adef:
        for k in getattr(a.value, 'keywords', []):
            if k.arg == 'matvec':
                mv = ast.unparse(k.value)
    fdefs = {n.name: n for n in kry.body if isinstance(n, ast.FunctionDef)}
    if mv not in fdefs or not au.calls(fdefs[mv], 'core.amat_x'):
        return False, 'system operator is not built on core.amat_x'
    return True, ''


# ---------------------------------------------------------------------------
FRESH, STALE, INIT = 'FRESH', 'STALE', 'INIT'


def summary_multigrid(ctx, M):
    """l2 state at exit of multigrid(level=0) w.r.t. its field parameter."""
    fn = M.mg
    cfg = CFG(fn)
    prune = level0_prune(cfg, fn)
    ps = au.params(fn)
    field, var = ps[2], ps[3]
    local = {}

    def transfer(n, s, lab):
        st = n.ast
        loc, vl2 = s
        if n.kind not in ('stmt', 'for') or st is None:
            return [s]
        if isinstance(st, ast.Assign) and len(st.targets) == 1:
            t = ast.unparse(st.targets[0])
            if isinstance(st.targets[0], ast.Name) and is_residual_call(
                    st.value, field):
                loc = tuple(sorted(set(loc) | {t}))
                return [(loc, vl2)]
            if t == f'{var}.l2':
                v = st.value
                if is_residual_call(v, field):
                    return [(loc, FRESH)]
                if isinstance(v, ast.Name):
                    return [(loc, FRESH if v.id in loc else STALE)]
                return [(loc, STALE)]
            if isinstance(st.targets[0], ast.Name) and t in loc:
                # copy of a fresh local keeps it fresh; anything else kills it
                if not (isinstance(st.value, ast.Name) and st.value.id in loc):
                    loc = tuple(x for x in loc if x != t)
            elif isinstance(st.targets[0], ast.Name) and isinstance(
                    st.value, ast.Name) and st.value.id in loc:
                loc = tuple(sorted(set(loc) | {t}))
        if M.writes_field(fn, st, field):
            return [((), STALE)]
        # a nested multigrid call overwrites var.l2 with a coarse-grid norm
        for c in ast.walk(st):
            if isinstance(c, ast.Call) and ast.unparse(c.func) in (
                    'multigrid', 'krylov'):
                vl2 = STALE
        return [(loc, vl2)]
    inn = solve_forward(cfg, [((), INIT)], transfer, prune)
    states = {s[1] for s in inn[cfg.exit]}
    live_exit = bool(inn[cfg.exit])
    # R6: the level-0 loop has no exit but `break` behind _terminate
    whiles = [n for n in ast.walk(fn) if isinstance(n, ast.While)]
    ctx.anchor(len(whiles) == 1, 'one cycle loop in multigrid()')
    tnode = cfg.node_of(whiles[0])
    falls = [m for m, lab in cfg.succ[tnode] if lab == 'F'
             and not prune(tnode, m, 'F')]
    ctx.check('C01.R6.loop_exit', 'multigrid level-0 loop condition',
              not falls, 'the fine-grid cycle loop can be left through its '
              'condition, i.e. without _terminate deciding',
              ctx.where(M.sm, whiles[0]))
    for b in [n for n in ast.walk(whiles[0]) if isinstance(n, ast.Break)]:
        gs = au.guards_of(b, fn)
        ok = any('_terminate(' in ast.unparse(t) and pol for t, pol in gs)
        ctx.check('C01.R6.loop_exit', f'multigrid `break` line-guard '
                  f'{ast.unparse(gs[-1][0])[:40] if gs else "none"}', ok,
                  'the cycle loop is left without consulting _terminate',
                  ctx.where(M.sm, b))
    return states, live_exit


def summary_krylov(ctx, M):
    fn = M.kry
    cfg = CFG(fn)
    ps = au.params(fn)
    field, var = ps[2], ps[3]

    def transfer(n, s, lab):
        st = n.ast
        if n.kind != 'stmt' or st is None:
            return [s]
        if isinstance(st, ast.Assign):
            for t in store_targets(st):
                if ast.unparse(t) == f'{var}.l2':
                    return [FRESH if is_residual_call(st.value, field)
                            else STALE]
        if M.writes_field(fn, st, field):
            return [STALE]
        return [s]
    inn = solve_forward(cfg, [INIT], transfer)
    return set(inn[cfg.exit])


def rule_R2(ctx, M):
    sm, fn = M.sm, M.solve
    var, ef = M.var, M.ef
    # -- exit status ---------------------------------------------------------------
    dicts0 = [n for n in ast.walk(fn) if isinstance(n, ast.Dict) and any(
        isinstance(k, ast.Constant) and k.value == 'exit' for k in n.keys)]
    ctx.anchor(len(dicts0) == 1, 'info dict literal in solve()')
    esname = [ast.unparse(v) for k, v in zip(dicts0[0].keys, dicts0[0].values)
              if isinstance(k, ast.Constant) and k.value == 'exit'][0]
    es = [n for n in ast.walk(fn) if isinstance(n, ast.Assign) and
          ast.unparse(n.targets[0]) == esname]
    ctx.anchor(len(es) >= 1, 'exit status assignment in solve()')
    # (the status may be assigned in several arms of a test on the message:
    # per message, the assignments whose guards hold are evaluated)
    res, live_nodes = {}, []
    for msg in (MSG, 'STAGNATED', ''):
        vals = []
        for n in es:
            env = {f'{var}.exit_message': msg}
            live = True
            for t_, pol in au.guards_of(n, fn):
                if 'exit_message' not in ast.unparse(t_):
                    continue
                try:
                    if bool(FiniteEval(env).ev(t_)) != pol:
                        live = False
                except AnalysisError:
                    pass
            if not live:
                continue
            live_nodes.append(n)
            try:
                vals.append(FiniteEval(env).ev(n.value))
            except AnalysisError as e:
                vals.append(f'? {e}')
        res[msg] = vals[0] if len(vals) == 1 else vals
    ok = res[MSG] == 0 and res[MSG] is not False and \
        res['STAGNATED'] == 1 and res[''] == 1
    n = es[0]
    ctx.check('C01.R2.exit_status', f'solve `{au.stext(n)}`', ok,
              f'exit status is {res}; must be 0 exactly for "CONVERGED" '
              'and 1 otherwise', ctx.where(sm, n),
              sample={'stmt': au.stext(n), 'table': {k or "''": v for k, v
                                                      in res.items()}})
    # -- reference norm: ||source|| (nan only in the zero-source arm) ----------------
    from ..core.template import find as _find, has as _has
    sps = au.params(fn)
    refs = [n for n in ast.walk(fn) if isinstance(n, ast.Assign) and any(
        ast.unparse(t) == f'{var}.l2_refe' for t in n.targets)]
    for n in refs:
        if _has(f'{var}.l2_refe = sp.linalg.norm({sps[1]}.field, '
                'check_finite=False)', n) or _has(
                f'{var}.l2_refe = sp.linalg.norm({sps[1]}.field)', n):
            okr = True
        elif ast.unparse(n.value) == 'np.nan':
            okr = any(zero_guard(t) and p for t, p in au.guards_of(n, fn))
        else:
            okr = False
        ctx.check('C01.R2.reference', f'solve `{au.stext(n)}`', okr,
                  'the reference norm of the tolerance test is not the norm '
                  'of the source field', ctx.where(sm, n),
                  sample={'stmt': au.stext(n)})
    ctx.need(len(refs) >= 1, 'no definition of the reference norm in solve()')
    other = [n for n in ast.walk(sm.tree) if isinstance(n, (ast.Assign,
                                                            ast.AugAssign))
             and any(isinstance(t, ast.Attribute) and t.attr == 'l2_refe'
                     for t in (n.targets if isinstance(n, ast.Assign)
                               else [n.target]))
             and au.qualname(n) not in ('solve', 'MGParameters.__post_init__')]
    ctx.check('C01.R2.reference', 'reference norm written only by solve()',
              not other, 'the reference norm is modified during the '
              f'iteration: {[au.qualname(n) for n in other]}',
              ctx.where(sm, fn))
    # -- info dict -------------------------------------------------------------------
    dicts = [n for n in ast.walk(fn) if isinstance(n, ast.Dict) and any(
        isinstance(k, ast.Constant) and k.value == 'exit' for k in n.keys)]
    ctx.anchor(len(dicts) == 1, 'info dict literal in solve()')
    want = {'exit': esname, 'exit_message': f'{var}.exit_message',
            'abs_error': f'{var}.l2',
            'rel_error': f'{var}.l2 / {var}.l2_refe',
            'ref_error': f'{var}.l2_refe', 'tol': f'{var}.tol'}
    got = {k.value: ast.unparse(v) for k, v in zip(dicts[0].keys,
                                                   dicts[0].values)
           if isinstance(k, ast.Constant)}
    for k, w in want.items():
        ctx.check('C01.R2.info', f"info_dict['{k}']", got.get(k) == w,
                  f"info['{k}'] is `{got.get(k)}`, the bookkeeping field is "
                  f'`{w}`', ctx.where(sm, dicts[0]),
                  sample={'key': k, 'value': got.get(k)})
    # -- freshness of var.l2 at every return ------------------------------------------
    mg_states, mg_live = summary_multigrid(ctx, M)
    kr_states = summary_krylov(ctx, M)
    ctx.check('C01.R2.fresh', 'multigrid(level=0): var.l2 at exit',
              mg_states <= {FRESH} and mg_live,
              f'var.l2 at the exit of the fine-grid multigrid call is '
              f'{sorted(mg_states)}: it may not be the norm of the residual '
              'of the field as it is at exit', ctx.where(sm, M.mg),
              sample={'function': 'multigrid', 'states': sorted(mg_states)})
    ctx.check('C01.R2.fresh', 'krylov: var.l2 at exit',
              kr_states <= {FRESH},
              f'var.l2 at the exit of krylov() is {sorted(kr_states)}: the '
              'field is overwritten by the solver result after the last '
              'residual was stored, so the reported error is not that of the '
              'returned field', ctx.where(sm, M.kry),
              sample={'function': 'krylov', 'states': sorted(kr_states)})
    cfg = CFG(fn)

    def transfer(n, s, lab):
        st = n.ast
        l2, ssl, cyc, msg = s
        if n.kind == 'test':
            t = ast.unparse(st)
            if t == f'{var}.sslsolver':
                if ssl == 'NONE' and lab == 'T':
                    return []
                return [s]
            if t == f'{var}.cycle':
                if cyc == 'NONE' and lab == 'T':
                    return []
                # validated configuration: not both falsy
                pr = [p for p, _ in cfg.pred[n]]
                if lab == 'F' and ssl == 'ORIG' and cyc == 'ORIG' and any(
                        p.kind == 'test' and ast.unparse(p.ast) ==
                        f'{var}.sslsolver' for p in pr):
                    return []
                return [s]
            return [s]
        if n.kind != 'stmt' or st is None:
            return [s]
        if isinstance(st, ast.Assign):
            for t in store_targets(st):
                tt = ast.unparse(t)
                if tt == f'{var}.l2':
                    if is_residual_call(st.value, ef):
                        l2 = FRESH
                    elif isinstance(st.value, ast.Constant) and \
                            st.value.value in (0, 0.0) and any(
                                zero_guard(g) and pol for g, pol in
                                au.guards_of(st, fn)):
                        l2 = FRESH     # zero field for a zero source
                    else:
                        l2 = STALE
                elif tt == f'{var}.sslsolver' and isinstance(
                        st.value, ast.Constant) and st.value.value is None:
                    ssl = 'NONE'
                elif tt == f'{var}.cycle' and isinstance(
                        st.value, ast.Constant) and st.value.value is None:
                    cyc = 'NONE'
                elif tt == f'{var}.exit_message':
                    msg = 'CONV' if (isinstance(st.value, ast.Constant) and
                                     st.value.value == MSG) else 'OTHER'
                elif tt == ef:
                    l2 = STALE if l2 == FRESH else l2
        for c in ast.walk(st):
            if isinstance(c, ast.Call):
                f = ast.unparse(c.func)
                if f == 'krylov':
                    return [(k, ssl, cyc, m) for k in kr_states
                            for m in ('CONV', 'OTHER')]
                if f == 'multigrid':
                    return [(k, ssl, cyc, m) for k in mg_states
                            for m in ('CONV', 'OTHER')]
        if M.writes_field(fn, st, ef) and not (
                isinstance(st, ast.Assign) and isinstance(st.value,
                                                          ast.Constant)
                and st.value.value in (0, 0.0) and l2 == FRESH and any(
                    zero_guard(g) and pol for g, pol in au.guards_of(st, fn))):
            l2 = STALE if l2 == FRESH else l2
        return [(l2, ssl, cyc, msg)]
    inn = solve_forward(cfg, [(INIT, 'ORIG', 'ORIG', 'EMPTY')], transfer)
    rets = [n for n in cfg.nodes if n.kind == 'return']
    ctx.anchor(rets, 'return statements in solve()')
    bad = {}
    for r in rets + [cfg.exit]:
        for (l2, ssl, cyc, msg) in inn[r]:
            if msg == 'CONV' and l2 != FRESH:
                how = ('Krylov' if ssl == 'ORIG' and l2 in kr_states and
                       l2 not in mg_states else
                       'no solver run' if ssl == 'NONE' else 'solver')
                bad.setdefault((l2, how), r)
    for (l2, how), r in sorted(bad.items()):
        if how == 'Krylov' and not kr_states <= {FRESH}:
            continue   # already reported at its origin (krylov summary)
        ctx.fail('C01.R2.fresh', f'solve: var.l2 {l2} at return ({how})',
                 f'a return of solve() is reachable with exit_message '
                 f'CONVERGED while var.l2 is {l2} (not the residual norm of '
                 'the returned field)', ctx.where(sm, r.ast or fn))
    ctx.ok('C01.R2.fresh', f'solve: {len(rets)} returns, '
           f'{sum(len(inn[r]) for r in rets)} abstract states',
           sample={'returns': len(rets), 'states_at_returns': sorted(
               {str(s) for r in rets for s in inn[r]})})
    # exit_status is computed after the solver calls
    dom = cfg.dominators()
    for n in es:
        en = cfg.node_of(n)
        for c in au.calls(fn):
            if ast.unparse(c.func) in ('krylov', 'multigrid'):
                cn = cfg.node_of(au.enclosing_stmt(c))
                later = en in cfg.reachable_between(cn, en) if cn is not en \
                    else False
                ctx.check('C01.R2.exit_status', f'solve: exit_status after '
                          f'{ast.unparse(c.func)}()', later,
                          'exit status is computed before the solver ran',
                          ctx.where(sm, n))


# ---------------------------------------------------------------------------
def rule_R3(ctx, M):
    fn, ef = M.solve, M.ef
    cfg = CFG(fn)
    # prune the branch in which the field is created by solve itself
    tnode = cfg.node_of(M.split)

    def prune(a, b, lab):
        return a is tnode and lab == 'T'
    g = cfg.graph(prune)
    import networkx as nx
    live = nx.descendants(g, cfg.node_of(M.pop)) | {cfg.node_of(M.pop)}
    n_reb = 0
    for n in cfg.nodes:
        st = n.ast
        if n.kind != 'stmt' or st is M.pop or not isinstance(
                st, (ast.Assign, ast.AugAssign)):
            continue
        if any(isinstance(t, ast.Name) and t.id == ef
               for t in store_targets(st)):
            if n in live:
                n_reb += 1
                ctx.fail('C01.R3.rebind', f'solve `{au.stext(st)}`',
                         f'the in/out parameter `{ef}` is re-bound on a path '
                         'where the caller supplied the field: the caller\'s '
                         'object no longer receives the result',
                         ctx.where(M.sm, st))
    ctx.ok('C01.R3.rebind', f'solve: stores to name `{ef}` on '
           f'supplied-field paths: {n_reb}', nontrivial=True,
           sample={'parameter': ef, 'rebinds_on_supplied_paths': n_reb})
    # results are written in place: Field.field setter is `self._field[:] = v`
    setters = [m for m in M.fm.methods('Field', 'field')
               if any('setter' in d for d in au.decorator_names(m))]
    ctx.anchor(len(setters) == 1, 'Field.field setter')
    body = au.body_nodoc(setters[0])
    ok = len(body) == 1 and isinstance(body[0], ast.Assign) and \
        ast.unparse(body[0].targets[0]) == 'self._field[:]'
    ctx.check('C01.R3.inplace', 'Field.field setter', ok,
              'the field setter re-binds the array instead of writing in '
              'place (views held by the caller are detached)',
              ctx.where(M.fm, setters[0]))
    for comp in ('fx', 'fy', 'fz'):
        g_ = [m for m in M.fm.methods('Field', comp)
              if 'property' in au.decorator_names(m)]
        ctx.anchor(len(g_) == 1, f'Field.{comp} getter')
        ret = [n for n in ast.walk(g_[0]) if isinstance(n, ast.Return)]
        txt = ast.unparse(ret[-1].value) if ret else ''
        ok = txt.startswith('self._field[') and ".reshape(" in txt and \
            "order='F'" in txt and 'copy' not in txt
        ctx.check('C01.R3.inplace', f'Field.{comp} getter is a view', ok,
                  f'`{txt}` is not an F-ordered reshape of a slice of the '
                  'field vector (stores through it would not reach the field)',
                  ctx.where(M.fm, g_[0]))


# ---------------------------------------------------------------------------
def rule_R4(ctx, M):
    fn, ef = M.solve, M.ef
    want = set()
    for comp, axes in (('fx', (1, 2)), ('fy', (0, 2)), ('fz', (0, 1))):
        for ax in axes:
            for end in (0, -1):
                want.add((comp, ax, end))
    got = set()
    nodes = []
    for st in ast.walk(M.split):
        if not isinstance(st, ast.Assign):
            continue
        if not (isinstance(st.value, ast.Constant) and
                st.value.value in (0, 0.0)):
            continue
        for t in st.targets:
            if isinstance(t, ast.Subscript) and isinstance(
                    t.value, ast.Attribute) and ast.unparse(
                        t.value.value) == ef and t.value.attr in (
                            'fx', 'fy', 'fz') and isinstance(
                                t.slice, ast.Tuple):
                fixed = [(i, e) for i, e in enumerate(t.slice.elts)
                         if not isinstance(e, ast.Slice)]
                if len(fixed) != 1:
                    continue
                i, e = fixed[0]
                try:
                    v = ast.literal_eval(e)
                except Exception:
                    continue
                got.add((t.value.attr, i, v))
                nodes.append(st)
    for trip in sorted(want):
        ctx.check('C01.R4.pec_zero', f'solve PEC {trip[0]} axis '
                  f'{"xyz"[trip[1]]} end {trip[2]}', trip in got,
                  f'tangential boundary plane {trip} of a supplied field is '
                  'not set to zero', ctx.where(M.sm, M.split),
                  sample={'triple': list(trip)})
    extra = got - want
    for trip in sorted(extra):
        ctx.fail('C01.R4.pec_zero', f'solve PEC extra {trip}',
                 f'{trip[0]} is zeroed on a plane that is not tangential '
                 'boundary (normal components are unknowns)',
                 ctx.where(M.sm, M.split))
    # zeroing happens before the residual / solvers in the supplied arm
    if nodes:
        last = max(n.lineno for n in nodes)
        firstres = [n for n in ast.walk(M.split) if isinstance(n, ast.Call)
                    and ast.unparse(n.func) == 'residual']
        ok = all(last < c.lineno for c in firstres) and all(
            n in ast.walk(M.split) for n in nodes)
        inelse = all(any(n is x for b in M.split.orelse for x in ast.walk(b))
                     for n in nodes)
        ctx.check('C01.R4.pec_zero', 'solve PEC zeroing placement',
                  ok and inelse, 'boundary zeroing is not done in the '
                  'supplied-field arm before the first residual',
                  ctx.where(M.sm, nodes[0]))
    ctx.floor('C01.R4.pec_zero', 12)
    # (ii) writers of the solution inside the solver
    from . import c03
    from ..stencil import kernels
    for fname in ('gauss_seidel', 'gauss_seidel_x', 'gauss_seidel_y',
                  'gauss_seidel_z'):
        it = kernels.interpret(M.cm, fname)
        sub = _Sub(ctx, 'C01.R4.writers')
        c03.write_intervals(sub, M.cm, it, fname, it.pnames[0:3])
    # prolongation: only 1:-1 transverse slices
    pf = M.sm.func('prolongation')
    pps = au.params(pf)
    for n in ast.walk(pf):
        if isinstance(n, (ast.Assign, ast.AugAssign)):
            for t in store_targets(n):
                if isinstance(t, ast.Subscript) and root_name(t) == pps[0] \
                        and isinstance(t.value, ast.Attribute) and \
                        t.value.attr in ('fx', 'fy', 'fz'):
                    a = 'xyz'.index(t.value.attr[1])
                    tr = [ast.unparse(e) for i, e in enumerate(
                        t.slice.elts) if i != a]
                    ctx.check('C01.R4.writers', f'prolongation '
                              f'`{au.stext(n)}`', tr == ['1:-1', '1:-1'],
                              f'transverse slices {tr} include tangential '
                              'boundary edges', ctx.where(M.sm, n))
    ctx.floor('C01.R4.writers', 9 + 21)
    # writer set (computed) for the evidence
    ctx.extra['efield_writer_functions'] = M.summ.writer_functions()


class _Sub:
    """Adapter: run a sub-check of another property under a C01 rule id."""
    def __init__(self, ctx, rule):
        self.ctx, self.rule = ctx, rule

    def check(self, rule, construct, cond, message, where=None, **kw):
        kw.pop('obligation', None)
        return self.ctx.check(self.rule, construct, cond, message, where,
                              **kw)

    def fail(self, rule, construct, message, where=None, **kw):
        return self.ctx.fail(self.rule, construct, message, where)

    def ok(self, rule, construct, **kw):
        kw.pop('obligation', None)
        return self.ctx.ok(self.rule, construct, **kw)

    def where(self, mod, node):
        return self.ctx.where(mod, node)


# ---------------------------------------------------------------------------
def rule_R5(ctx, M):
    sm = M.sm
    n = 0
    for c in au.calls(sm.tree, 'fields.Field'):
        fn = au.enclosing_func(c)
        if fn is None:
            continue
        kws = {k.arg: ast.unparse(k.value) for k in c.keywords}
        if len(c.args) >= 2 or 'data' in kws:
            continue      # wraps existing data: dtype follows the data
        n += 1
        ok = kws.get('dtype', '').endswith('.field.dtype')
        ctx.check('C01.R5.dtype', f'{au.qualname(c)} `{au.stext(c)[:60]}`',
                  ok, 'a fresh field inside the solver does not take the '
                  'dtype of the source/field it belongs to',
                  ctx.where(sm, c), sample={'site': au.qualname(c),
                                            'dtype': kws.get('dtype')})
    ctx.floor('C01.R5.dtype', 5)
    # dtype guard dominates the solver calls on supplied-field paths
    fn, ef = M.solve, M.ef
    tests = [n_ for n_ in ast.walk(M.split) if isinstance(n_, ast.If) and
             'dtype' in ast.unparse(n_.test) and any(
                 isinstance(b, ast.Raise) for b in n_.body)]
    ok = False
    if tests:
        t = tests[0].test
        txt = ast.unparse(t).replace(' ', '')
        ps = au.params(fn)
        ok = txt in (f'{ps[1]}.field.dtype!={ef}.field.dtype',
                     f'{ef}.field.dtype!={ps[1]}.field.dtype') and \
            any(tests[0] is x for x in M.split.orelse) and \
            M.split.orelse.index(tests[0]) == 0
    ctx.check('C01.R5.dtype_guard', 'solve: dtype mismatch raises first', ok,
              'a supplied field of another dtype than the source is not '
              'rejected before anything is computed',
              ctx.where(M.sm, M.split))


# ---------------------------------------------------------------------------
def rule_R6(ctx, M):
    sm = M.sm
    term = M.term
    ps = au.params(term)
    var = ps[0]
    # every finishing branch stores a message, except maxit-as-preconditioner
    chain = [n for n in au.body_nodoc(term) if isinstance(n, ast.If)]
    ctx.anchor(chain, 'decision chain in _terminate')
    first = chain[0]
    arms = []
    node = first
    while True:
        arms.append((node.test, node.body))
        if len(node.orelse) == 1 and isinstance(node.orelse[0], ast.If):
            node = node.orelse[0]
        else:
            break
    rets0 = [n for n in ast.walk(term) if isinstance(n, ast.Return)]
    ctx.anchor(rets0 and all(isinstance(r_.value, ast.Name) for r_ in rets0)
               and len({r_.value.id for r_ in rets0}) == 1,
               '_terminate returns its finished flag')
    fin = rets0[0].value.id
    for test, body in arms:
        sets_finished = any(isinstance(s, ast.Assign) and ast.unparse(
            s.targets[0]) == fin and ast.unparse(s.value) == 'True'
            for s in ast.walk(ast.Module(body, [])))
        if not sets_finished:
            continue
        msgs = [s for s in ast.walk(ast.Module(body, [])) if isinstance(
            s, ast.Assign) and ast.unparse(s.targets[0]) ==
            f'{var}.exit_message']
        uncond = [s for s in msgs if any(s is b for b in body)]
        ttxt = ast.unparse(test)
        if uncond:
            ok = True
        elif 'maxit' in ttxt and msgs and all(
                ast.unparse(au.enclosing(s, ast.If).test) ==
                f'not {var}.sslsolver' for s in msgs):
            ok = True    # preconditioner: Krylov decides about success
        else:
            ok = False
        ctx.check('C01.R6.message', f'_terminate arm `{ttxt[:50]}`', ok,
                  'a finishing branch of _terminate stores no exit message',
                  ctx.where(sm, test), sample={'arm': ttxt})
        for s in msgs:
            v = s.value
            if isinstance(v, ast.Constant) and v.value == MSG and \
                    tol_guard(test) is None:
                ctx.fail('C01.R6.message', f'_terminate arm `{ttxt[:50]}`',
                         'a non-tolerance branch reports CONVERGED',
                         ctx.where(sm, s))
    ctx.floor('C01.R6.message', 4)
    # return value of _terminate is `finished`
    rets = [n for n in ast.walk(term) if isinstance(n, ast.Return)]
    ctx.check('C01.R6.message', '_terminate returns finished',
              rets and all(r_.value is not None and
                           ast.unparse(r_.value) == fin for r_ in rets),
              '_terminate does not return its finished flag',
              ctx.where(sm, term))
    # krylov: info > 0 arm stores a non-success message unconditionally
    kry = M.kry
    calls = [n for n in ast.walk(kry) if isinstance(n, ast.Call) and
             ast.unparse(n.func).startswith('getattr(sp.sparse.linalg')]
    st = au.enclosing_stmt(calls[0])
    info = ast.unparse(st.targets[0].elts[1])
    msgs = [n for n in ast.walk(kry) if isinstance(n, (ast.Assign,
                                                       ast.AugAssign))
            and any(isinstance(t, ast.Attribute) and t.attr == 'exit_message'
                    for t in store_targets(n))]
    for v, name in ((1, 'info > 0'), (-1, 'info < 0')):
        stored = []
        for m_ in msgs:
            gs = au.guards_of(m_, kry)
            if not gs:
                continue
            try:
                fe = FiniteEval({info: v, f'{ps[0]}.exit_message': ''})
                act = all(bool(fe.ev(t)) == pol for t, pol in gs
                          if info in ast.unparse(t))
                uncond = all(info in ast.unparse(t) for t, pol in gs)
            except AnalysisError:
                continue
            if act:
                stored.append((m_, uncond))
        nonsucc = [m_ for m_, u in stored if u and not (
            isinstance(m_.value, ast.Constant) and m_.value.value == MSG)]
        if v == 1:
            ctx.check('C01.R6.krylov', f'krylov arm {name}', bool(nonsucc),
                      'iteration limit of the Krylov solver does not store '
                      'a failure message unconditionally', ctx.where(sm, kry),
                      sample={'arm': name, 'stores': [au.stext(m_)
                                                      for m_, _ in stored]})
        else:
            # a 'CONVERGED' stored by _terminate for the multigrid
            # preconditioner's own system may be in place when SciPy breaks
            # down (info < 0, e.g. -10 of bicgstab / cgs for weak sources):
            # the arm has to replace it (witness F39)
            over = []
            for m_ in msgs:
                gs = au.guards_of(m_, kry)
                if not gs:
                    continue
                try:
                    fe = FiniteEval({info: v,
                                     f'{ps[0]}.exit_message': MSG})
                    if all(bool(fe.ev(t)) == pol for t, pol in gs) and not (
                            isinstance(m_.value, ast.Constant) and
                            m_.value.value == MSG):
                        over.append(m_)
                except AnalysisError:
                    continue
            ctx.check('C01.R6.krylov', 'krylov arm info < 0 replaces a stale '
                      'CONVERGED', bool(over),
                      'when the Krylov solver breaks down (info < 0) a '
                      '"CONVERGED" left by the multigrid preconditioner '
                      'survives: exit 0 is reported for a field whose '
                      'residual is above tol', ctx.where(sm, kry),
                      sample={'arm': name})
            ctx.check('C01.R6.krylov', f'krylov arm {name}', bool(stored),
                      'breakdown of the Krylov solver stores no message',
                      ctx.where(sm, kry), sample={'arm': name})


def run(ctx):
    ctx.explanation = (
        'Static dataflow over solver.solve/multigrid/krylov/_terminate: '
        'success sites are enumerated and each must carry a certificate '
        '(tolerance guard fed by a residual of the returned field with no '
        'computed field-writer between, in-place zero for a zero source, or '
        'scipy info==0 with rtol=var.tol); a typestate (FRESH/STALE) of the '
        'reported error figure is propagated through statement-level CFGs '
        '(multigrid specialised to level 0 by constant pruning); re-binding '
        'of the in/out parameter, PEC slice table, writer footprints, dtype '
        'propagation and failure-message placement are read off the AST.')
    ctx.assumptions = [
        'A5 (narrowed after defect F30): the return code of the scipy '
        'Krylov solvers is NOT taken as a certificate for the returned '
        'iterate (they test a recursively updated residual); assumed only: '
        'info == maxiter when the limit is reached, info < 0 on breakdown, '
        'and the callback is not necessarily called with the returned '
        'iterate',
        'A4 Field.fx/fy/fz are views of Field._field; Field.field = v writes '
        'in place (checked: C01.R3.inplace)',
        'the operator behind residual() is the system operator (C02)',
        'external scipy/numpy callees do not mutate their arguments']
    # the certificate is about the system of the GIVEN model and source: the
    # operator coefficients are those of the arguments of this call (rules
    # of C02; run first, they do not need the structure of solve())
    from . import c02
    from ..core.report import Renamed
    P = Renamed(ctx, lambda r: 'C01.OP.' + r.split('.', 1)[1])
    c02.coefficients(P)
    c02.model_aliasing(P)
    c02.fresh_vmodel(P, rule='C02.O5.fresh')
    M = SolverModel(ctx)
    rule_R1(ctx, M)
    rule_R2(ctx, M)
    rule_R3(ctx, M)
    rule_R4(ctx, M)
    rule_R5(ctx, M)
    rule_R6(ctx, M)
