"""C05 - grid hierarchy and V/W/F cycling are well-formed.

Rules (DESIGN.md 4/C05):
  H1  "can be halved" (_max_level) == not "blocked" (_current_sc_dir) on every
      parity/size class; halving loop body; user limit; clevel table
  H2  sc/lr code tables (shared with C03/C04) incl. never relaxing along a
      two-cell direction
  H3  recursion ranking: the only recursive call passes level+1 under the
      not-coarsest guard; clevel / sc_dir have single writers
  H4  sc/lr cycles advance exactly once per fine-grid cycle at level 0,
      after the residual and before _terminate
  H5  loop progress: `it += 1` on every path through the cycle loop, maxit arm
  H6  header: printed coarsest level is the array the bottom table is built of
  H7  cycle-index hand-over table (V/W/F)
"""
import ast

import networkx as nx

from ..core import astutil as au
from ..core.cfg import CFG
from ..core.report import AnalysisError
from ..core.tables import FiniteEval
from ..core.canon import ct
from ..core.template import same
from . import c03, c04
from .c01 import _Sub, level0_prune

LEVEL = 'other'
SOLVER = 'emg3d/solver.py'
CLASS_REPS = list(range(2, 13))     # parity x position w.r.t. constants 2, 3


def rule_H1(ctx, sm):
    ml = sm.method('MGParameters', '_max_level')
    wh = [n for n in ast.walk(ml) if isinstance(n, ast.While)]
    ctx.anchor(len(wh) == 1, 'halving loop in _max_level')
    wh = wh[0]
    names = {x.id for x in ast.walk(wh.test) if isinstance(x, ast.Name)}
    ctx.anchor(len(names) == 1, 'halving guard over one variable')
    v = names.pop()
    halv = {}
    for n in CLASS_REPS:
        halv[n] = bool(FiniteEval({v: n}, where=sm.rel).ev(wh.test))
        ctx.check('C05.H1.halvable', f'_max_level guard on n={n}',
                  halv[n] == (n % 2 == 0 and n > 2),
                  f'a direction with {n} cells is '
                  f'{"" if halv[n] else "not "}halved; only even counts '
                  'larger than two may be halved', ctx.where(sm, wh),
                  sample={'n': n, 'halvable': halv[n]})
    body = [ast.unparse(s).replace(' ', '') for s in wh.body]
    from ..core.template import find as _find, has as _has
    cnt = _find('_c_[_i_] += 1', wh)
    cl = cnt[0][1]['_c_'] if cnt else 'clevel'
    ok = len(body) == 2 and any(b in (f'{v}/=2', f'{v}//=2', f'{v}={v}/2',
                                      f'{v}={v}//2') for b in body) and \
        len(cnt) == 1
    ctx.check('C05.H1.halvable', '_max_level loop body', ok,
              f'halving loop body is {body}: it must count one level and '
              'halve the cell number', ctx.where(sm, wh))
    # blocked predicate of _current_sc_dir
    cs = sm.func('_current_sc_dir')
    cps = au.params(cs)
    defs = [s for s in au.body_nodoc(cs) if isinstance(s, ast.Assign)
            and 'shape_cells' in ast.unparse(s.value)]
    ctx.anchor(len(defs) == 3, 'three blocked-axis predicates in '
               '_current_sc_dir')
    for a, s in enumerate(defs):
        for n in CLASS_REPS:
            shape = [4, 4, 4]
            shape[a] = n
            fe = FiniteEval({cps[0]: 0, f'{cps[1]}.shape_cells': shape},
                            where=sm.rel)
            blocked = bool(fe.ev(s.value))
            ctx.check('C05.H1.blocked', f'_current_sc_dir axis {"xyz"[a]} '
                      f'n={n}', blocked == (not halv[n]),
                      f'axis with {n} cells is '
                      f'{"blocked" if blocked else "coarsened"} by '
                      f'_current_sc_dir but '
                      f'{"halvable" if halv[n] else "not halvable"} for '
                      '_max_level: depth announced and coarsening performed '
                      'disagree', ctx.where(sm, s),
                      sample={'axis': a, 'n': n, 'blocked': blocked})
        # requested direction blocks its own axis
        for sc in range(4):
            shape = [4, 4, 4]
            fe = FiniteEval({cps[0]: sc, f'{cps[1]}.shape_cells': shape},
                            where=sm.rel)
            blocked = bool(fe.ev(s.value))
            ctx.check('C05.H1.blocked', f'_current_sc_dir axis {"xyz"[a]} '
                      f'sc_dir={sc}', blocked == (sc == a + 1),
                      'semicoarsening direction does not keep its own axis',
                      ctx.where(sm, s))
    ctx.floor('C05.H1.halvable', 12)
    ctx.floor('C05.H1.blocked', 45)
    # user limit
    lim = [n for n in ast.walk(ml) if isinstance(n, ast.If) and
           'self.clevel' in ast.unparse(n.test) and any(
               isinstance(s, ast.Assign) and ast.unparse(s.value) ==
               'self.clevel' for s in n.body)]
    ctx.anchor(len(lim) == 1, 'user clevel limit in _max_level')
    lst = [s for s in lim[0].body if isinstance(s, ast.Assign)][0]
    ivar = ast.unparse(lst.targets[0].slice)
    for user in (-1, 0, 1, 2, 5):
        for auto in (0, 1, 3):
            fe = FiniteEval({'self.clevel': user, cl: [auto] * 3,
                             ivar: 0}, where=sm.rel)
            fe.run([lim[0]])
            key = f'{cl}[{ivar}]'
            got = fe.env[cl][0] if key not in fe.env else fe.env[key]
            want = auto if user < 0 else min(user, auto)
            ctx.check('C05.H1.limit', f'_max_level limit user={user} '
                      f'auto={auto}', got == want,
                      f'coarsest level becomes {got}, expected {want}',
                      ctx.where(sm, lim[0]),
                      sample={'user': user, 'auto': auto, 'result': got})
    # the while loop precedes the limit, the limit precedes the table
    tab = [n for n in ast.walk(ml) if isinstance(n, ast.Assign) and
           ast.unparse(n.targets[0]) == 'self.clevel']
    ctx.anchor(len(tab) == 1, 'self.clevel table')
    ctx.check('C05.H1.limit', '_max_level order', wh.lineno < lim[0].lineno
              < tab[0].lineno, 'halving count, user limit and level table '
              'are not computed in this order', ctx.where(sm, ml))


def rule_H2(ctx, sm):
    # tables shared with C03 (line relaxation) and C04 (semicoarsening)
    sub3 = _Sub(ctx, 'C05.H2.lr_table')
    cnt_before = ctx.count('C05.H2.lr_table')

    class Fake:
        pass
    f = _TableCtx(ctx, {'C03.S6.adapt': 'C05.H2.lr_table',
                        'C03.S6.dispatch': 'C05.H2.lr_table',
                        'C03.S6.callers': 'C05.H2.callers'})
    c03.dispatch(f)
    g = _TableCtx(ctx, {'C04.T.sc_dir': 'C05.H2.sc_table'}, drop_others=True)
    c04.sc_tables(g)
    ctx.floor('C05.H2.lr_table', 76)
    ctx.floor('C05.H2.sc_table', 100)
    ctx.floor('C05.H2.callers', 4)


class _TableCtx:
    """Runs a table check of another property under C05 rule ids."""
    def __init__(self, ctx, mapping, drop_others=False):
        self.ctx, self.mapping, self.drop = ctx, mapping, drop_others
        self.repo = ctx.repo

    def _r(self, rule):
        return self.mapping.get(rule)

    def check(self, rule, construct, cond, message, where=None, **kw):
        r = self._r(rule)
        if r is None:
            return cond
        kw.pop('obligation', None)
        return self.ctx.check(r, construct, cond, message, where, **kw)

    def fail(self, rule, construct, message, where=None, **kw):
        r = self._r(rule)
        if r is not None:
            self.ctx.fail(r, construct, message, where)

    def ok(self, rule, construct, **kw):
        r = self._r(rule)
        if r is not None:
            kw.pop('obligation', None)
            self.ctx.ok(r, construct, **kw)

    def anchor(self, cond, what):
        return self.ctx.anchor(cond, what)

    def need(self, cond, what):
        return self.ctx.need(cond, what)

    def floor(self, rule, n):
        pass

    def where(self, mod, node):
        return self.ctx.where(mod, node)

    def note(self, t):
        pass


class MGNames:
    """Local names of multigrid() derived from anchors (not literals)."""
    def __init__(self, ctx, sm):
        from ..core.template import find
        mg = sm.func('multigrid')
        f = find("_l_ = kwargs.get('level', 0)", mg)
        g = find("_n_ = kwargs.get('new_cycmax', 0)", mg)
        ctx.anchor(len(f) == 1 and len(g) == 1, 'level / new_cycmax keyword '
                   'arguments of multigrid()')
        self.level, self.newc = f[0][1]['_l_'], g[0][1]['_n_']
        wh = [n for n in ast.walk(mg) if isinstance(n, ast.While)]
        ctx.anchor(len(wh) == 1, 'cycle loop in multigrid()')
        cmp_ = [c for c in ast.walk(wh[0].test) if isinstance(c, ast.Compare)
                and isinstance(c.ops[0], ast.Lt) and isinstance(
                    c.left, ast.Name) and isinstance(c.comparators[0],
                                                     ast.Name)]
        ctx.anchor(len(cmp_) == 1, '`it < cycmax` in the cycle loop test')
        self.it, self.cycmax = cmp_[0].left.id, cmp_[0].comparators[0].id
        rec = [c for c in au.calls(mg, 'multigrid')]
        ctx.anchor(len(rec) == 1, 'recursive call in multigrid()')
        kw = {k.arg: k.value for k in rec[0].keywords}
        nc = kw.get('new_cycmax')
        self.cyc = nc.right.id if isinstance(nc, ast.BinOp) and isinstance(
            nc.right, ast.Name) else 'cyc'


def rule_H3(ctx, sm):
    mg = sm.func('multigrid')
    ps = au.params(mg)
    var = ps[3]
    N = MGNames(ctx, sm)
    rec = [c for c in au.calls(mg, 'multigrid')]
    ctx.anchor(len(rec) == 1, 'exactly one recursive call in multigrid()')
    c = rec[0]
    kws = {k.arg: ast.unparse(k.value).replace(' ', '') for k in c.keywords}
    ctx.check('C05.H3.ranking', 'multigrid recursive call: level',
              kws.get('level') in (f'{N.level}+1', f'1+{N.level}'),
              f'recursive call passes level={kws.get("level")}; the recursion '
              'is ranked only if it passes level+1', ctx.where(sm, c),
              sample={'keywords': kws})
    gs = au.guards_of(c, mg)
    PRED = f'{N.level} == {var}.clevel[{var}.sc_dir]'
    bottom = [(t, pol) for t, pol in gs if same(PRED, t) is not None]
    ctx.check('C05.H3.ranking', 'multigrid recursive call: bottom guard',
              len(bottom) == 1 and bottom[0][1] is False,
              'the recursive call is not confined to levels above the '
              'coarsest level of the current semicoarsening direction',
              ctx.where(sm, c))
    # the coarse problem handed down is the restricted one
    args = [ast.unparse(a) for a in c.args]
    restr = [n for n in ast.walk(mg) if isinstance(n, ast.Assign) and
             isinstance(n.value, ast.Call) and
             ast.unparse(n.value.func) == 'restriction']
    ctx.anchor(len(restr) == 1, 'restriction() call in multigrid()')
    tg = [ast.unparse(e) for e in restr[0].targets[0].elts]
    ctx.check('C05.H3.ranking', 'multigrid recursive call: coarse problem',
              args[:3] == tg and args[3] == var,
              f'recursion runs on {args[:3]}, restriction returned {tg}',
              ctx.where(sm, c))
    # bottom level: exactly the same predicate picks cycmax=1 and coarse solve
    tests = [n.test for n in ast.walk(mg)
             if isinstance(n, (ast.If, ast.IfExp)) and
             'clevel' in ast.unparse(n.test)]
    ctx.check('C05.H3.ranking', 'multigrid bottom predicate used twice',
              len(tests) >= 2 and all(same(PRED, t) is not None
                                      for t in tests),
              'the coarsest-level predicate is not the same in the cycle '
              'setup and in the cycle body', ctx.where(sm, mg))
    # single writers of clevel / sc_dir / lr_dir
    for attr, allowed in (('clevel', {'MGParameters._max_level',
                                      'MGParameters'}),
                          ('sc_dir', {'MGParameters._semicoarsening',
                                      'multigrid'}),
                          ('lr_dir', {'MGParameters._linerelaxation',
                                      'multigrid'})):
        for n in ast.walk(sm.tree):
            if isinstance(n, (ast.Assign, ast.AugAssign)):
                tgs = n.targets if isinstance(n, ast.Assign) else [n.target]
                for t in tgs:
                    if isinstance(t, ast.Attribute) and t.attr == attr:
                        q = au.qualname(n)
                        ok = q in allowed
                        if ok and q == 'multigrid':
                            ok = ast.unparse(n.value).replace(' ', '') in (
                                f'next({var}.sc_cycle)',
                                f'next({var}.lr_cycle)')
                        ctx.check('C05.H3.writers', f'{q} `{au.stext(n)}`',
                                  ok, f'`{attr}` is written outside its '
                                  'owner: the level table / direction the '
                                  'recursion relies on can change under it',
                                  ctx.where(sm, n))
    ctx.floor('C05.H3.writers', 5)
    # the direction cycles are per-solve state: every store of sc_cycle /
    # lr_cycle is False or an `itertools.cycle(..)` made right there (an
    # iterator handed out by a memoised helper, a module-level table or a
    # default argument is shared between solves and between the two
    # settings, and continues where the last one stopped)
    n_c = 0
    for n in ast.walk(sm.tree):
        if not isinstance(n, ast.Assign):
            continue
        for ti, t in enumerate(n.targets[0].elts if isinstance(
                n.targets[0], ast.Tuple) else n.targets):
            if not (isinstance(t, ast.Attribute) and t.attr in (
                    'sc_cycle', 'lr_cycle')):
                continue
            n_c += 1
            fn_ = au.enclosing_func(n)
            v = n.value
            if isinstance(n.targets[0], ast.Tuple):
                v = v.elts[ti] if isinstance(v, ast.Tuple) and len(
                    v.elts) == len(n.targets[0].elts) else ast.Subscript(
                        v, ast.Constant(ti), ast.Load())
            vals = au.values_of(v, [fn_]) if fn_ is not None else [v]
            ok = all((isinstance(x, ast.Constant) and x.value in (
                False, None)) or (isinstance(x, ast.Call) and ast.unparse(
                    x.func) == 'itertools.cycle') for x in vals)
            ctx.check('C05.H3.writers', f'{au.qualname(n)} `{au.stext(n)}`',
                      ok, f'`{t.attr}` is bound to '
                      f'`{ast.unparse(vals[0])[:60]}`, not to a new '
                      'itertools.cycle(..): a remembered / shared iterator '
                      'continues where an earlier solve (or the other '
                      'setting) left it, so the directions do not start at '
                      'the first digit and do not advance once per cycle',
                      ctx.where(sm, n))
    ctx.need(n_c >= 5, f'only {n_c} stores of sc_cycle / lr_cycle found')
    # `True` asks for the cycling pattern, the integer 1 (4) for a FIXED
    # direction, and 1 == True in Python: the branch for the cycling pattern
    # must be entered for True only (identity, not equality / membership)
    for meth, attr in (('_semicoarsening', 'semicoarsening'),
                       ('_linerelaxation', 'linerelaxation')):
        fn_ = sm.method('MGParameters', meth)
        arms = [n for n in ast.walk(fn_) if isinstance(n, ast.If) and any(
            isinstance(st, ast.Assign) and 'itertools.cycle' in ast.unparse(
                st.value) and 'np.array([1, 2, 3])' in ast.unparse(
                    ast.Module(n.body, [])) + 'np.array([4, 5, 6])' * 0 or
            isinstance(st, ast.Assign) and 'np.array([4, 5, 6])' in
            ast.unparse(st.value) for st in n.body)]
        ctx.anchor(len(arms) >= 1, f'cycling arm of {meth}')
        test = arms[0].test
        res = {}
        for val in (True, 1, 4, 2):
            try:
                res[val if val is not True else 'True'] = bool(FiniteEval(
                    {f'self.{attr}': val, 'np.True_': True,
                     'np.bool_(True)': True}, where=sm.rel).ev(test))
            except AnalysisError:
                res[val if val is not True else 'True'] = None
        ok = res['True'] is True and res[1] is False and res[4] is False \
            and res[2] is False
        ctx.check('C05.H2.sc_table' if attr == 'semicoarsening'
                  else 'C05.H2.lr_table', f'{meth}: cycling only for True',
                  ok, f'the test `{ast.unparse(test)}` for the cycling '
                  f'pattern evaluates to {res}: an integer that equals True '
                  '(1) must give the fixed direction, not the cycle',
                  ctx.where(sm, arms[0]))


def rule_H4_H5(ctx, sm):
    mg = sm.func('multigrid')
    ps = au.params(mg)
    var = ps[3]
    N = MGNames(ctx, sm)
    L = N.level
    cfg = CFG(mg)
    prune = level0_prune(cfg, mg)
    for cyc in ('sc_cycle', 'lr_cycle'):
        sites = [n for n in ast.walk(mg) if isinstance(n, ast.Call) and
                 ast.unparse(n).replace(' ', '') == f'next({var}.{cyc})']
        ctx.check('C05.H4.once', f'multigrid: next({var}.{cyc}) sites',
                  len(sites) == 1, f'{len(sites)} advance sites of {cyc} in '
                  'multigrid (exactly one per fine-grid cycle expected)',
                  ctx.where(sm, mg), sample={'cycle': cyc,
                                             'sites': len(sites)})
        if len(sites) != 1:
            continue
        st = au.enclosing_stmt(sites[0])
        gs = au.guards_of(st, mg)
        lvl = [(ast.unparse(t).replace(' ', ''), pol) for t, pol in gs]
        at0 = (ct(f'{L}>0'), False) in lvl or (ct(f'{L}==0'), True) in lvl
        guard_ok = all(t in (ct(f'{L}>0'), ct(f'{L}==0'), f'{var}.{cyc}')
                       for t, _ in lvl)
        ctx.check('C05.H4.once', f'multigrid: next({var}.{cyc}) at level 0',
                  at0 and guard_ok, f'advance of {cyc} is guarded by {lvl}: '
                  'it must happen on the fine grid only, unconditionally '
                  'apart from "is cycling"', ctx.where(sm, st))
        wh = au.enclosing(st, ast.While)
        ctx.check('C05.H4.once', f'multigrid: next({var}.{cyc}) inside the '
                  'cycle loop, not in a nested loop', wh is not None and
                  au.enclosing(st, ast.For) is None and au.enclosing(
                      wh, ast.While) is None, 'advance is not once per '
                  'iteration of the cycle loop', ctx.where(sm, st))
        # after the residual, before _terminate
        res = [n for n in ast.walk(mg) if isinstance(n, ast.Assign) and
               'residual(' in ast.unparse(n.value) and au.enclosing(
                   n, ast.While) is wh and au.guards_of(n, mg)[-1:] ==
               [g for g in gs if ast.unparse(g[0]).replace(' ', '') in (
                   ct(f'{L}>0'), ct(f'{L}==0'))][-1:]]
        term = [n for n in ast.walk(mg) if isinstance(n, ast.If) and
                '_terminate(' in ast.unparse(n.test)]
        ok = bool(res) and len(term) == 1 and \
            res[-1].lineno < st.lineno < term[0].lineno
        ctx.check('C05.H4.once', f'multigrid: next({var}.{cyc}) between '
                  'residual and _terminate', ok, 'direction is advanced '
                  'before the end-of-cycle residual or after the '
                  'termination test', ctx.where(sm, st))
    # nowhere else in the module
    for n in ast.walk(sm.tree):
        if isinstance(n, ast.Call) and ast.unparse(n.func) == 'next' and \
                n.args and ast.unparse(n.args[0]).endswith(
                    ('sc_cycle', 'lr_cycle')):
            q = au.qualname(n)
            ctx.check('C05.H4.once', f'{q} `{ast.unparse(n)}`', q in (
                'multigrid', 'MGParameters._semicoarsening',
                'MGParameters._linerelaxation'),
                'direction cycle advanced outside multigrid / its '
                'initialisation', ctx.where(sm, n))
    ctx.floor('C05.H4.once', 10)
    # H5: progress
    whs = [n for n in ast.walk(mg) if isinstance(n, ast.While)]
    ctx.anchor(len(whs) == 1, 'cycle loop')
    wh = whs[0]
    conts = [n for n in ast.walk(wh) if isinstance(n, ast.Continue)]
    incs = [s for s in wh.body if isinstance(s, ast.AugAssign) and
            ast.unparse(s).replace(' ', '') == f'{N.it}+=1']
    ctx.check('C05.H5.progress', 'multigrid: it += 1 on every path',
              len(incs) == 1 and not conts, 'the local cycle counter is not '
              'advanced unconditionally once per iteration',
              ctx.where(sm, wh))
    ctx.check('C05.H5.progress', 'multigrid: loop condition',
              same(f'{L} == 0 or ({L} > 0 and {N.it} < {N.cycmax})', wh.test)
              is not None or
              same(f'{L} == 0 or {N.it} < {N.cycmax}', wh.test) is not None,
              f'cycle loop condition `{ast.unparse(wh.test)}` does not bound '
              'coarse-level cycles by cycmax', ctx.where(sm, wh))
    term = sm.func('_terminate')
    tps = au.params(term)
    arms = [n for n in ast.walk(term) if isinstance(n, ast.If) and
            same(f'{tps[3]} == {tps[0]}.maxit', n.test) is not None]
    trets = [n for n in ast.walk(term) if isinstance(n, ast.Return)]
    fin = trets[0].value.id if len(trets) == 1 and isinstance(
        trets[0].value, ast.Name) else 'finished'
    ok = len(arms) == 1 and any(ast.unparse(s).replace(' ', '') ==
                                f'{fin}=True' for s in arms[0].body)
    ctx.check('C05.H5.progress', '_terminate: maxit arm finishes', ok,
              'reaching maxit does not finish the iteration',
              ctx.where(sm, term))
    # var.it advanced once per fine-grid cycle
    vit = [n for n in ast.walk(wh) if isinstance(n, ast.AugAssign) and
           ast.unparse(n.target) == f'{var}.it']
    ok = len(vit) == 1 and [ast.unparse(t).replace(' ', '') for t, p in
                            au.guards_of(vit[0], mg) if p] == [f'{L}==0']
    ctx.check('C05.H5.progress', 'multigrid: global counter at level 0', ok,
              'global iteration counter is not advanced exactly at level 0',
              ctx.where(sm, wh))


def rule_H6_H7(ctx, sm):
    ml = sm.method('MGParameters', '_max_level')
    d = [n for n in ast.walk(ml) if isinstance(n, ast.Dict) and any(
        isinstance(k, ast.Constant) and k.value == 'clevel' for k in n.keys)]
    ctx.anchor(len(d) == 1, '_repr_clevel dictionary')
    kv = {k.value: ast.unparse(v) for k, v in zip(d[0].keys, d[0].values)}
    tab = [n for n in ast.walk(ml) if isinstance(n, ast.Assign) and
           ast.unparse(n.targets[0]) == 'self.clevel'][0]
    used = {ast.unparse(s.value) for s in ast.walk(tab.value)
            if isinstance(s, ast.Subscript)}
    ctx.check('C05.H6.header', 'printed coarsest level = table source',
              kv.get('clevel') in used and len(used) == 1,
              f'header prints `{kv.get("clevel")}` but the level table is '
              f'built from {sorted(used)}', ctx.where(sm, d[0]))
    from ..core.template import find as _find2
    src_name = sorted(used)[0] if used else 'clevel'
    shp = kv.get('shape_cells', '')
    names = [x.strip() for x in shp.strip('()').split(',')] if shp else []
    for a in range(3):
        nm = names[a] if len(names) == 3 else '?'
        st = _find2(f'{nm} = int(self.shape_cells[{a}] / 2 ** '
                    f'{src_name}[{a}])', ml)
        ctx.check('C05.H6.header', f'printed coarsest cells axis {a}',
                  len(st) == 1, 'printed coarsest grid is not '
                  'shape / 2**level', ctx.where(sm, ml))
    rp = sm.method('MGParameters', '__repr__')
    txt = ast.unparse(rp)
    ctx.check('C05.H6.header', '__repr__ prints the coarsest level',
              "self._repr_clevel['clevel'][0]" in txt and
              "self._repr_clevel['clevel'][2]" in txt,
              'solver header does not print the per-axis coarsest level',
              ctx.where(sm, rp))
    # H7: cycmax per cycle type, and the hand-over chain in multigrid
    sc = sm.method('MGParameters', '_solver_and_cycle')
    arm = [n for n in ast.walk(sc) if isinstance(n, ast.If) and any(
        isinstance(s, ast.Assign) and ast.unparse(s.targets[0]) ==
        'self.cycmax' for s in n.body)]
    ctx.anchor(len(arm) == 1, 'cycmax selection')
    for cyc, want in (('F', 2), ('W', 2), ('V', 1), (None, 1)):
        fe = FiniteEval({'self.cycle': cyc}, where=sm.rel)
        fe.run([arm[0]])
        ctx.check('C05.H7.cycmax', f'cycmax for cycle {cyc!r}',
                  fe.env.get('self.cycmax') == want,
                  f'cycle {cyc!r} uses cycmax={fe.env.get("self.cycmax")}, '
                  f'documented {want}', ctx.where(sm, arm[0]),
                  sample={'cycle': cyc, 'cycmax': fe.env.get('self.cycmax')})
    mg = sm.func('multigrid')
    ps = au.params(mg)
    var = ps[3]
    N = MGNames(ctx, sm)
    first = [n for n in mg.body if isinstance(n, ast.If) and any(
        isinstance(s, ast.Assign) and ast.unparse(s.targets[0]) == N.cycmax
        for s in ast.walk(n))]
    ctx.anchor(len(first) == 1, 'cycmax hand-over chain in multigrid')
    for bottom in (True, False):
        for cyc in ('F', 'V', 'W'):
            for newc in (0, 1, 2):
                env = {N.level: 1 if bottom else 0,
                       f'{var}.clevel[{var}.sc_dir]': 1, N.newc: newc,
                       f'{var}.cycle': cyc, f'{var}.cycmax': 7}
                fe = FiniteEval(env, where=sm.rel)
                fe.run([first[0]])
                got = fe.env.get(N.cycmax)
                want = 1 if bottom else (
                    newc if (cyc == 'F' and newc != 0) else 7)
                ctx.check('C05.H7.cycmax', f'multigrid cycmax bottom={bottom} '
                          f'cycle={cyc} new_cycmax={newc}', got == want,
                          f'cycmax={got}, documented hand-over gives {want}',
                          ctx.where(sm, first[0]))
    rec = au.calls(mg, 'multigrid')[0]
    kws = {k.arg: ast.unparse(k.value).replace(' ', '') for k in rec.keywords}
    ctx.check('C05.H7.cycmax', 'multigrid: remaining cycles handed down',
              kws.get('new_cycmax') == f'{N.cycmax}-{N.cyc}',
              f'new_cycmax={kws.get("new_cycmax")}; F-cycles hand the '
              'remaining number of cycles (cycmax - cyc) to the next level',
              ctx.where(sm, rec))
    whs = [n for n in ast.walk(mg) if isinstance(n, ast.While)][0]
    cy = [n for n in ast.walk(whs) if isinstance(n, ast.AugAssign) and
          ast.unparse(n).replace(' ', '') == f'{N.cyc}+=1']
    ok = len(cy) == 1 and [ast.unparse(t).replace(' ', '') for t, p in
                           au.guards_of(cy[0], mg) if p] == [
                               ct(f'{N.level}>0')]
    ctx.check('C05.H7.cycmax', 'multigrid: cyc advanced on coarse levels',
              ok, 'coarse-level cycle counter is not advanced once per '
              'coarse cycle', ctx.where(sm, whs))
    ctx.floor('C05.H7.cycmax', 24)


def _node_expr(n):
    """The part of the syntax tree that is evaluated at CFG node n."""
    a = n.ast
    if a is None:
        return []
    if n.kind == 'for':
        return [a.iter]
    if isinstance(a, ast.With):
        return [i.context_expr for i in a.items]
    if n.kind == 'def':
        return []
    return [a]


def rule_H8(ctx, sm):
    """Stale derived values.  The semicoarsening / line-relaxation direction
    of the parameter object advances at the end of every fine-grid cycle; a
    local that was computed from it (cycmax, a hoisted "coarsest" flag, ...)
    and is used again afterwards without being recomputed describes the
    PREVIOUS cycle's direction: the level test and the V/W/F hand-over then
    follow the wrong hierarchy."""
    from ..core.cfg import CFG
    mg = sm.func('multigrid')
    var = au.params(mg)[3]
    srcs = (f'{var}.sc_dir', f'{var}.lr_dir')
    cfg = CFG(mg)
    stores = {}
    for n in cfg.nodes:
        if n.kind == 'stmt' and isinstance(n.ast, ast.Assign):
            for t in n.ast.targets:
                if ast.unparse(t) in srcs:
                    stores.setdefault(ast.unparse(t), []).append(n)
    ctx.anchor(len(stores) == 2, 'direction advance statements in multigrid')
    # locals derived from the direction (transitively)
    defs = {}
    for n in cfg.nodes:
        if n.kind == 'stmt' and isinstance(n.ast, (ast.Assign, ast.AugAssign)):
            ts = n.ast.targets if isinstance(n.ast, ast.Assign) else \
                [n.ast.target]
            for t in ts:
                for x in ([t] if isinstance(t, ast.Name) else
                          t.elts if isinstance(t, ast.Tuple) else []):
                    if isinstance(x, ast.Name):
                        defs.setdefault(x.id, []).append(n)
    derived = {}
    changed = True
    while changed:
        changed = False
        for name, ds in defs.items():
            for d in ds:
                reads = {ast.unparse(x) for x in ast.walk(d.ast.value)
                         if isinstance(x, (ast.Attribute, ast.Name))}
                # control dependence: the guards of the definition
                for t, _p in au.guards_of(d.ast, mg):
                    reads |= {ast.unparse(x) for x in ast.walk(t)
                              if isinstance(x, (ast.Attribute, ast.Name))}
                for src in srcs:
                    dep = src in reads or any(
                        r in derived and src in derived[r] for r in reads)
                    if dep and src not in derived.setdefault(name, set()):
                        derived[name].add(src)
                        changed = True
    ctx.anchor('cycmax' in derived or len(derived) >= 1,
               'locals derived from the cycling direction')
    n_uses = 0
    for name, ss in sorted(derived.items()):
        for src in sorted(ss):
            for S in stores[src]:
                for U in cfg.nodes:
                    if U in defs[name] and not isinstance(U.ast,
                                                          ast.AugAssign):
                        # a plain re-definition: its own reads are fresh
                        continue
                    used = any(isinstance(x, ast.Name) and x.id == name and
                               isinstance(x.ctx, ast.Load)
                               for e in _node_expr(U) for x in ast.walk(e))
                    if not used:
                        continue
                    n_uses += 1
                    path = cfg.reachable_between(S, U, avoid=[
                        d for d in defs[name]
                        if not isinstance(d.ast, ast.AugAssign)])
                    stale = U in path
                    ctx.check('C05.H8.stale', f'multigrid: `{name}` (from '
                              f'{src}) used at line-kind `'
                              f'{au.stext(U.ast)[:48]}`', not stale,
                              f'`{name}` was computed from {src}, which '
                              f'advances at `{au.stext(S.ast)}`; this use is '
                              'reached afterwards without recomputing it, so '
                              'later cycles use the first cycle\'s coarsest '
                              'level / cycle count',
                              ctx.where(sm, U.ast),
                              sample={'name': name, 'source': src})
    ctx.need(n_uses >= 3, f'only {n_uses} uses of direction-derived locals')


def run(ctx):
    ctx.explanation = (
        'Decision code of the hierarchy (halving guard, blocked-axis '
        'predicate, direction tables, cycmax hand-over) is evaluated over '
        'finite abstract domains (codes, parity/size classes, cycle types) '
        'and the resulting tables are compared with each other and with the '
        'documented ones; recursion ranking, once-per-cycle placement and '
        'loop progress are read off the AST/CFG of multigrid().  The visited '
        'level sequence of concrete shapes is not executed.')
    ctx.exhaustive = True
    ctx.assumptions = ['parity/size classes n in 2..12 cover every '
                       'distinction the predicates (mod 2, comparisons with '
                       '2 and 3) can make']
    sm = ctx.repo.mod(SOLVER)
    rule_H1(ctx, sm)
    rule_H2(ctx, sm)
    rule_H3(ctx, sm)
    rule_H4_H5(ctx, sm)
    rule_H6_H7(ctx, sm)
    rule_H8(ctx, sm)
