"""C07 - adjoint-state gradient equals the derivative of the misfit
(structural necessary conditions only).

Rules (DESIGN.md 4/C07):
  TA  anisotropy-case table agrees wherever model.case is interpreted
  CH  derivative_chain applied once per kept component with its own property,
      after the folds into component 0
  G1  material derivative of the extracted amat_x rows == V/4 scatter of
      interp_edges_to_vol_averages (ties gradient code to operator code)
  AS  adjoint sources: registry pairing, NaN skip, coordinates, strength
"""
import ast

from ..core import astutil as au
from ..core.report import AnalysisError
from ..core.tables import FiniteEval, Opaque
from ..stencil import kernels
from ..stencil.alg import Aff, Lin, Rat, idx_key, fmt_atom, Fr
from ..stencil.interp import subst_lin
from ..core.template import find, has, require, same

LEVEL = 'other'
SIMS = 'emg3d/simulations.py'
CASES = {'isotropic': (False, False), 'HTI': (True, False),
         'VTI': (False, True), 'triaxial': (True, True)}


def case_definition(ctx, rule):
    mm = ctx.repo.mod('emg3d/models.py')
    init = mm.method('Model', '__init__')
    chain = [n for n in init.body if isinstance(n, ast.If) and
             'self.case' in ast.unparse(n)]
    ctx.anchor(len(chain) == 1, 'anisotropy case chain in Model.__init__')
    for case, (hy, hz) in CASES.items():
        fe = FiniteEval({'self._property_y': Opaque('y') if hy else None,
                         'self._property_z': Opaque('z') if hz else None},
                        where=mm.rel)
        fe.run([chain[0]])
        got = fe.env.get('self.case')
        ctx.check(rule, f'Model.__init__ case for y={hy}, z={hz}',
                  got == case, f'model with property_y '
                  f'{"set" if hy else "None"} / property_z '
                  f'{"set" if hz else "None"} is called {got!r}, documented '
                  f'{case!r}', ctx.where(mm, chain[0]),
                  sample={'y': hy, 'z': hz, 'case': got})


def eval_guards(node, fn, env, where):
    gs = au.guards_of(node, fn)
    fe = FiniteEval(env, where=where)
    for t, pol in gs:
        try:
            v = bool(fe.ev(t))
        except AnalysisError:
            continue        # guard does not depend on the case
        if v != pol:
            return False
    return True


def gradient_table(ctx, rule_ta, rule_ch):
    sm = ctx.repo.mod(SIMS)
    g = [m for m in sm.methods('Simulation', 'gradient')
         if 'property' in au.decorator_names(m)]
    ctx.anchor(len(g) == 1, 'Simulation.gradient')
    g = g[0]
    chains = [c for c in au.calls(g) if ast.unparse(c.func).endswith(
        '.derivative_chain')]
    fin = find('self._gradient = _G_[_I_, ..., :__].squeeze()', g)
    ctx.check(rule_ta, 'gradient: kept components selected by an index list',
              len(fin) == 1, 'returned gradient is not '
              'gradient[indices, ...]', ctx.where(sm, g))
    ctx.anchor(len(fin) == 1, 'final gradient selection in gradient')
    G, I = fin[0][1]['_G_'], fin[0][1]['_I_']
    folds = [n for n in ast.walk(g) if isinstance(n, ast.AugAssign) and
             isinstance(n.op, ast.Add) and ast.unparse(n.target).startswith(
                 f'{G}[0') and ast.unparse(n.value).startswith(f'{G}[')]
    appends = [c for c in au.calls(g) if ast.unparse(c.func) ==
               f'{I}.append']
    init = [n for n in ast.walk(g) if isinstance(n, ast.Assign) and
            ast.unparse(n.targets[0]) == I]
    ctx.anchor(len(init) == 1 and ast.unparse(init[0].value) == '[0]',
               'index list starts as [0] in gradient')

    def comp(n):
        return int(ast.unparse(n).split('[')[1].split(',')[0])
    for case, (hy, hz) in CASES.items():
        env = {'self.model.case': case}
        act_ch = [(comp(c.args[0]), ast.unparse(c.args[1]), c) for c in chains
                  if eval_guards(c, g, env, sm.rel)]
        act_fold = [comp(f.value) for f in folds
                    if eval_guards(f, g, env, sm.rel)]
        act_app = [int(ast.unparse(a.args[0])) for a in appends
                   if eval_guards(a, g, env, sm.rel)]
        kept = [0] + sorted(act_app)
        want_kept = [0] + ([1] if hy else []) + ([2] if hz else [])
        want_fold = sorted(set([1, 2]) - set(want_kept))
        ctx.check(rule_ta, f'gradient components for case {case}',
                  kept == want_kept and sorted(act_fold) == want_fold,
                  f'case {case}: keeps components {kept}, folds {act_fold} '
                  f'into x; the anisotropy table says keep {want_kept}, fold '
                  f'{want_fold}', ctx.where(sm, g),
                  sample={'case': case, 'kept': kept, 'folded': act_fold})
        pairs = sorted((k, p) for k, p, _ in act_ch)
        want_pairs = sorted((k, 'self.model.property_' + 'xyz'[k])
                            for k in want_kept)
        ctx.check(rule_ch, f'gradient chain rule for case {case}',
                  pairs == want_pairs, f'derivative_chain is applied as '
                  f'{pairs}; every kept component needs exactly one chain '
                  f'factor with its own property: {want_pairs}',
                  ctx.where(sm, g), sample={'case': case, 'pairs': pairs})
    # the chain on component 0 comes after the folds into it
    c0 = [c for c in chains if comp(c.args[0]) == 0]
    ok = len(c0) == 1 and all(f.lineno < c0[0].lineno for f in folds)
    ctx.check(rule_ch, 'gradient: chain of component x after the folds', ok,
              'the chain factor of property_x is applied before the y/z '
              'contributions are folded into it', ctx.where(sm, g))
    ctx.floor(rule_ch, 5)
    return g


def scatter_and_material_derivative(ctx):
    mm = ctx.repo.mod('emg3d/maps.py')
    cm = ctx.repo.mod('emg3d/core.py')
    it = kernels.interpret(mm, 'interp_edges_to_vol_averages')
    pn = it.pnames
    enames, vname, onames = pn[0:3], pn[3], pn[4:7]
    for node, arr, ax, a, n, c in it.oob:
        ctx.fail('C07.G1.bounds', f'interp_edges_to_vol_averages {arr} axis '
                 f'{ax} `{au.stext(node)}`', f'subscript {a} can leave '
                 f'[0, {n}-1]', ctx.where(mm, node))
    # scatter footprint per edge in the interior class
    foot = {}       # comp -> {cell idx_key: coef Rat}
    edge_idx = None
    interior = 0
    for s in it.stores:
        cls = s.ctx['classes']
        if any(v != 'int' for v in cls.values()):
            continue
        a = onames.index(s.arr)
        own = (s.arr, idx_key(s.idx))
        # the last store to each cell holds the accumulated value
        foot.setdefault(a, {})[idx_key(s.idx)] = s.value
        interior += 1
    ctx.need(interior == 12, f'{interior} interior scatter stores (12 '
             'expected: 4 cells x 3 components)')
    # operator rows
    ita = kernels.interpret(cm, 'amat_x')
    an = ita.pnames
    rows = {}
    for s in ita.stores:
        if all(v == 'rest' for v in s.ctx['classes'].values()):
            a = an.index(s.arr)
            rows[a] = (s.idx, -(s.value - Lin.cell((s.arr, idx_key(s.idx)))))
    ctx.need(len(rows) == 3, 'interior amat_x rows')
    loop_syms = [next(iter(rows[0][0][i].t)) for i in range(3)]
    smu0 = Rat.atom(('smu0', ()))
    for a in range(3):
        p, row = rows[a]
        eta_name = an[6 + a]
        # eta_a@c := -smu0 * V@c * sigma_a@c
        def sub(at, eta_name=eta_name):
            if at[0] == eta_name:
                return Rat.const(-1) * smu0 * Rat.atom(('V', at[1])) * \
                    Rat.atom(('sigma', at[1]))
            return Rat.atom(at)
        diag = (an[3 + a], idx_key(p))
        coef = row.coef_of(diag).map_atoms(sub)
        sig_atoms = sorted(at for at in coef.atoms() if at[0] == 'sigma')
        others = [c for c, r in row.terms.items() if c != diag and any(
            at[0] == eta_name for at in r.atoms())]
        ctx.check('C07.G1.material', f'amat_x row {an[a]}: sigma enters the '
                  'diagonal only', not others, 'conductivity enters '
                  f'off-diagonal coefficients {others[:2]}',
                  ctx.where(cm, cm.func('amat_x')))
        # scatter cells of the same edge (rename loop symbols to match)
        scat = {}
        for cellk, val in foot[a].items():
            # contribution of the edge e_a[p] to this cell
            own = (onames[a], cellk)
            contrib = val - Lin.cell(own)
            for ecell, c in contrib.terms.items():
                scat[(cellk, ecell)] = c
        # express the scatter relative to the edge: every stored cell gets
        # V@cell/4 * e_a[edge]; collect cells for the edge at loop position
        edge_cells = {}
        for (cellk, ecell), c in scat.items():
            if ecell[0] != enames[a]:
                ctx.fail('C07.G1.scatter', f'scatter {onames[a]}',
                         f'component {onames[a]} receives {ecell[0]}',
                         ctx.where(mm, mm.func(
                             'interp_edges_to_vol_averages')))
                continue
            e_idx = tuple(Aff.from_key(k) for k in ecell[1])
            c_idx = tuple(Aff.from_key(k) for k in cellk)
            off = tuple(ci - ei for ci, ei in zip(c_idx, e_idx))
            if not all(o.is_const() for o in off):
                raise AnalysisError('scatter offsets are not constant')
            edge_cells[tuple(int(o.c) for o in off)] = (c, cellk)
        want_offsets = set()
        b, c_ = (a + 1) % 3, (a + 2) % 3
        for db in (0, -1):
            for dc in (0, -1):
                o = [0, 0, 0]
                o[b], o[c_] = db, dc
                want_offsets.add(tuple(o))
        ctx.check('C07.G1.scatter', f'scatter footprint of {enames[a]}',
                  set(edge_cells) == want_offsets,
                  f'edge {enames[a]} is scattered to cell offsets '
                  f'{sorted(edge_cells)}; the four cells sharing the edge '
                  f'are {sorted(want_offsets)}',
                  ctx.where(mm, mm.func('interp_edges_to_vol_averages')),
                  sample={'component': enames[a],
                          'offsets': sorted(edge_cells)})
        for off, (c, cellk) in sorted(edge_cells.items()):
            want = Rat.atom((vname, cellk)) * Rat.const(Fr(1, 4))
            ctx.check('C07.G1.scatter', f'scatter weight {enames[a]} -> cell '
                      f'{off}', c == want, f'weight is {c}, expected the '
                      'cell volume over four', ctx.where(
                          mm, mm.func('interp_edges_to_vol_averages')))
        # material derivative of the operator row
        n_ok = 0
        for at in sig_atoms:
            cell = tuple(Aff.from_key(k) for k in at[1])
            off = tuple(ci - pi for ci, pi in zip(cell, p))
            d = coef.diff(at)
            want = smu0 * Rat.atom(('V', at[1])) * Rat.const(Fr(1, 4))
            offc = tuple(int(o.c) for o in off) if all(
                o.is_const() for o in off) else None
            ok = d == want and offc in want_offsets
            n_ok += ok
            ctx.check('C07.G1.material', f'd(row {an[a]})/d sigma@{offc}',
                      ok, f'derivative is {d}; gradient code assumes '
                      f'smu0*V/4 on the four cells sharing the edge',
                      ctx.where(cm, cm.func('amat_x')),
                      sample={'row': an[a], 'cell_offset': offc,
                              'derivative': repr(d)})
        ctx.check('C07.G1.material', f'row {an[a]} depends on four cells',
                  len(sig_atoms) == 4 and n_ok == 4,
                  f'{len(sig_atoms)} conductivity cells enter the row',
                  ctx.where(cm, cm.func('amat_x')))
    ctx.floor('C07.G1.material', 18)
    ctx.floor('C07.G1.scatter', 15)
    gradient_callsite(ctx, pn)


def gradient_callsite(ctx, pn, R='C07.G1.callsite'):
    """Call site of the scatter kernel in Simulation.gradient (jtvec is
    gradient with a supplied residual)."""
    # call site in Simulation.gradient
    sm = ctx.repo.mod(SIMS)
    g = [m for m in sm.methods('Simulation', 'gradient')
         if 'property' in au.decorator_names(m)][0]
    cs = [c for c in au.calls(g) if ast.unparse(c.func) ==
          'maps.interp_edges_to_vol_averages']
    ctx.anchor(len(cs) == 1, 'interp_edges_to_vol_averages call in gradient')
    kws = {k.arg: ast.unparse(k.value) for k in cs[0].keywords}
    cm_ = find(f'maps.interp_edges_to_vol_averages({pn[0]}=_g_.fx, '
               f'{pn[1]}=_g_.fy, {pn[2]}=_g_.fz, {pn[3]}=_v_.reshape(_s_, '
               f"order='F'), {pn[4]}=_o_[0, ...], {pn[5]}=_o_[1, ...], "
               f'{pn[6]}=_o_[2, ...])', g)
    ok = len(cm_) == 1
    if ok:
        bb = cm_[0][1]
        ok = has(f'{bb["_v_"]} = {bb["_g_"]}.grid.cell_volumes', g) and \
            has(f'{bb["_s_"]} = {bb["_g_"]}.grid.shape_cells', g)
    ctx.check(R, 'gradient -> interp_edges_to_vol_averages',
              ok, f'arguments {kws} do not pair the field components with '
              'the gradient components and the cell volumes of the same '
              'grid', ctx.where(sm, cs[0]), sample={'keywords': kws})
    # the scatter kernel accumulates (+=): its target must be a fresh zero
    # array in every iteration of the source-frequency loop
    if cm_:
        from ..core.cfg import CFG, solve_forward
        acc = cm_[0][1]['_o_']
        call_st = au.enclosing_stmt(cm_[0][0])
        loop = au.enclosing(call_st, ast.For)
        cfgg = CFG(g)

        def tr(nd, st_, lab):
            a = nd.ast
            if nd.kind == 'for' and a is loop and lab == 'T':
                return ['ENTRY']        # value carried into this iteration
            if nd.kind == 'stmt' and isinstance(a, ast.Assign) and any(
                    ast.unparse(t) == acc for t in a.targets):
                return ['ZERO' if has(f'{acc} = np.zeros(__, order=__)', a)
                        or has(f'{acc} = np.zeros(__)', a) else 'OTHER']
            return [st_]
        inn = solve_forward(cfgg, ['INIT'], tr)
        states = set(inn[cfgg.node_of(call_st)])
        ctx.check(R, 'gradient: scatter target is a fresh '
                  'zero array per source-frequency pair', loop is not None
                  and states == {'ZERO'}, f'the accumulating scatter kernel '
                  f'receives `{acc}` in state {sorted(states)}: contributions '
                  'of earlier source-frequency pairs are added again',
                  ctx.where(sm, call_st), sample={'states': sorted(states)})
    ef = find("_e_ = self._dict_get('efield', _s_, _f_)", g)
    bf = find("_b_ = self._dict_get('bfield', _s_, _f_)", g)
    ok = len(ef) == 1 and len(bf) == 1 and \
        (ef[0][1]['_s_'], ef[0][1]['_f_']) == (bf[0][1]['_s_'],
                                               bf[0][1]['_f_'])
    ctx.check(R, 'gradient pairs forward and back field of '
              'the same (source, frequency)', ok, 'forward and '
              'back-propagated field are not taken for the same task',
              ctx.where(sm, g))
    if ok:
        e, b_ = ef[0][1]['_e_'], bf[0][1]['_b_']
        gfd = find(f'_g_ = fields.Field(grid={e}.grid, data=np.real('
                   f'{b_}.field * {e}.smu0 * {e}.field))', g)
        ctx.check(R, 'gradient integrand Re(lambda smu0 E)',
                  len(gfd) == 1 and kws.get(pn[0]) ==
                  gfd[0][1]['_g_'] + '.fx', 'the integrand is not the real '
                  'part of back-propagated field times s*mu0 times forward '
                  'field (on the grid of the forward field)',
                  ctx.where(sm, g))


def adjoint_sources(ctx):
    em = ctx.repo.mod('emg3d/electrodes.py')
    for rx, tx in (('RxElectricPoint', 'TxElectricPoint'),
                   ('RxMagneticPoint', 'TxMagneticPoint')):
        c = em.cls(rx)
        a = [s for s in c.body if isinstance(s, ast.Assign) and
             ast.unparse(s.targets[0]) == '_adjoint_source']
        ctx.check('C07.AS.registry', f'{rx}._adjoint_source',
                  len(a) == 1 and ast.unparse(a[0].value) == tx,
                  f'adjoint source of {rx} is '
                  f'{ast.unparse(a[0].value) if a else None}, the transpose '
                  f'of its sampling operator is {tx}', ctx.where(em, c),
                  sample={'receiver': rx, 'source': tx})
    sm = ctx.repo.mod(SIMS)
    fn = sm.method('Simulation', '_get_rfield')
    ps = au.params(fn)
    loop = [n for n in fn.body if isinstance(n, ast.For)]
    ctx.anchor(len(loop) == 1, 'receiver loop in _get_rfield')
    body = loop[0].body
    first = body[0]
    ok = isinstance(first, ast.If) and has('np.isnan(_r_[_i_])',
                                           first.test) and isinstance(
        first.body[0], ast.Continue)
    ctx.check('C07.AS.nan', '_get_rfield skips NaN residuals first', ok,
              'missing observations are not skipped before an adjoint '
              'source is created (NaN would enter the source field)',
              ctx.where(sm, loop[0]))
    # ... and ONLY those: every other receiver gets its source.  No other
    # exit from the loop, and no return ahead of it unless its guard says that
    # there is nothing to back-propagate at all (all NaN / empty)
    jumps = [n for n in ast.walk(loop[0]) if isinstance(
        n, (ast.Continue, ast.Break, ast.Return)) and not (
            ok and n in ast.walk(first))]
    early = [n for n in ast.walk(fn) if isinstance(n, ast.Return) and
             n is not fn.body[-1] and n not in ast.walk(loop[0])]

    def harmless(ret):
        from ..core.canon import negate
        gs = [t if pol else negate(t) for t, pol in au.guards_of(ret, fn)]
        pats = ('np.isnan(_x_).all()', 'np.all(np.isnan(_x_))',
                '_x_.size == 0', 'len(_x_) == 0', 'not np.isfinite(_x_).any()',
                'not np.any(np.isfinite(_x_))')
        return any(any(same(p_, g) is not None for p_ in pats) for g in gs)
    bad = jumps + [n for n in early if not harmless(n)]
    ctx.check('C07.AS.nan', '_get_rfield: only NaN residuals are left out',
              not bad, 'an exit that is not the per-receiver NaN skip leaves '
              'receivers with data without adjoint source (their part of '
              'J^T r is dropped)', ctx.where(sm, bad[0] if bad else fn))
    r_ = find(f'_r_ = self.data.residual.loc[{ps[1]}, :, {ps[2]}].data', fn)
    w_ = find(f'_w_ = self.data.weights.loc[{ps[1]}, :, {ps[2]}].data', fn)
    ctx.check('C07.AS.source', '_get_rfield: residual and weights of this '
              'source/frequency', len(r_) == 1 and len(w_) == 1,
              'residual / weights are not taken at the task\'s own '
              '(source, frequency)', ctx.where(sm, fn))
    rn = r_[0][1]['_r_'] if r_ else 'residual'
    wn = w_[0][1]['_w_'] if w_ else 'weight'
    rf_ = find('_rf_ = fields.Field(_g_, frequency=_fq_)', fn)
    ctx.anchor(len(rf_) == 1, 'adjoint source field in _get_rfield')
    rf, gr, fq = (rf_[0][1][k] for k in ('_rf_', '_g_', '_fq_'))
    st_ = find(f'_s_ = np.conj({rn} * {wn} / -{rf}.smu0)', fn)
    ctx.check('C07.AS.source', '_get_rfield: source strength', len(st_) == 1,
              'adjoint source strength is not conj(residual*weight/(-s mu0))',
              ctx.where(sm, fn))
    sn = st_[0][1]['_s_'] if st_ else 'strength'
    lv = loop[0].target
    ok = isinstance(lv, ast.Tuple) and has(
        'enumerate(self.survey.receivers.values())', loop[0].iter)
    ctx.check('C07.AS.source', '_get_rfield enumerates the receivers in '
              'data order', ok, 'receiver loop does not follow the order of '
              'the data dimension', ctx.where(sm, loop[0]))
    if ok:
        i_, rec = lv.elts[0].id, lv.elts[1].id
        co = find(f'_c_ = {rec}.coordinates_abs(self.survey.sources['
                  f'{ps[1]}])', loop[0])
        if not co:
            # the survey source bound to a local first: that local must have
            # this one definition only (not be re-used inside the loop)
            for n_, b_ in find(f'_c_ = {rec}.coordinates_abs(_s_)', loop[0]):
                S_ = b_['_s_']
                defs_ = [d for d in ast.walk(fn) if isinstance(
                    d, (ast.Assign, ast.AugAssign, ast.For)) and any(
                        isinstance(x, ast.Name) and x.id == S_ and
                        isinstance(x.ctx, ast.Store) for x in ast.walk(d)
                        if not isinstance(d, ast.For) or x in ast.walk(
                            d.target))]
                if S_.isidentifier() and len(defs_) == 1 and has(
                        f'{S_} = self.survey.sources[{ps[1]}]', defs_[0]):
                    co = [(n_, b_)]
        ok2 = len(co) == 1
        if ok2:
            sr = find(f'_x_ = {rec}._adjoint_source({co[0][1]["_c_"]}, '
                      f'strength={sn}[{i_}])', loop[0])
            ok2 = len(sr) == 1 and has(
                f'{rf}.field += {sr[0][1]["_x_"]}.get_field(grid={gr}, '
                f'frequency={fq}).field', loop[0])
        ctx.check('C07.AS.source', '_get_rfield: receiver position and '
                  'source', ok2, 'adjoint source is not placed at the '
                  '(absolute) receiver position with the receiver\'s own '
                  'strength and added to the source field',
                  ctx.where(sm, fn))
        first = body[0]
        ctx.check('C07.AS.nan', '_get_rfield: NaN test on this receiver',
                  has(f'np.isnan({rn}[{i_}])', first),
                  'the NaN test does not look at this receiver\'s residual',
                  ctx.where(sm, loop[0]))
    # ... and samples every component the adjoint source injects
    from .c09 import skip_threshold
    skip_threshold(ctx, 'C07.AS.source')
    # forward sampling uses the same absolute coordinates
    su = ctx.repo.mod('emg3d/surveys.py')
    rt = su.method('Survey', '_rec_types_coord')
    ctx.check('C07.AS.source', 'forward sampling at coordinates_abs(source)',
              has('_r_.coordinates_abs(self.sources[_s_])', rt),
              'forward responses are not sampled at the same absolute '
              'coordinates the adjoint sources use', ctx.where(su, rt))
    # forward sampling stores each response in the slot of its own receiver:
    # the index arrays of the electric / magnetic receivers (survey order)
    # address the response vector, each with the coordinates of its own type
    # (the adjoint sources above are built receiver by receiver in survey
    # order, so any other slot convention pairs data with another receiver)
    gr_ = sm.method('Simulation', '_get_responses')
    it_ = find('_e_, _m_ = self.survey._irec_types', gr_)
    ic_ = find(f'_ec_, _mc_ = self.survey._rec_types_coord('
               f'{au.params(gr_)[1]})', gr_)
    ok = len(it_) == 1 and len(ic_) == 1
    if ok:
        e_, m_ = it_[0][1]['_e_'], it_[0][1]['_m_']
        ec_, mc_ = ic_[0][1]['_ec_'], ic_[0][1]['_mc_']
        ok = has(f'_r_[{e_}] = _f_.get_receiver(receiver={ec_}, method=__)',
                 gr_) and \
            has(f'_r_[{m_}] = _h_.get_receiver(receiver={mc_}, method=__)',
                gr_)
        sts = [n for n in ast.walk(gr_) if isinstance(n, ast.Assign) and
               isinstance(n.targets[0], ast.Subscript) and
               'get_receiver' in ast.unparse(n.value)]
        ok = ok and len(sts) == 2
    ctx.check('C07.AS.source', '_get_responses: responses stored at the '
              'indices of their receivers', ok, 'electric / magnetic '
              'responses are not stored at the index arrays of '
              '_irec_types paired with the coordinates of the same type: '
              'with mixed receiver types data are attached to other '
              'receivers than the adjoint sources', ctx.where(sm, gr_))
    su_ = ctx.repo.mod('emg3d/surveys.py')
    irt = su_.method('Survey', '_irec_types')
    ok = has("_t_ = tuple([_r_.xtype == 'electric' for _r_ in "
             "self.receivers.values()])", irt) and \
        has('self._ierec = np.nonzero(_t_)[0]', irt) and \
        has('self._imrec = np.nonzero(np.logical_not(_t_))[0]', irt)
    ctx.check('C07.AS.source', '_irec_types: index arrays in survey order',
              ok, 'electric / magnetic receiver indices are not the '
              'positions of these receivers in the survey',
              ctx.where(su_, irt))
    # tolerance of the back-propagation
    bc = sm.method('Simulation', '_bcompute')
    ctx.check('C07.AS.tol', 'back-propagation uses tol_gradient',
              has("_d_['solver_opts']['tol'] = self.tol_gradient", bc), 'back-propagated fields are not computed '
              'with the gradient tolerance', ctx.where(sm, bc))
    g = [m for m in sm.methods('Simulation', 'gradient')
         if 'property' in au.decorator_names(m)][0]
    mis = [n for n in ast.walk(g) if isinstance(n, ast.Attribute) and
           ast.unparse(n) == 'self.misfit']
    bc_ = [c for c in au.calls(g) if ast.unparse(c.func) == 'self._bcompute']
    ctx.check('C07.AS.tol', 'gradient evaluates the misfit first',
              bool(mis) and bool(bc_) and min(m.lineno for m in mis) <
              bc_[0].lineno, 'residual and weights are not guaranteed to '
              'exist before back-propagation', ctx.where(sm, g))


def derived_owner(ctx, rule):
    """The data weights and the residual are results of Simulation.misfit for
    the noise model and data of that moment; the cached misfit, the residual
    and the weights the gradient multiplies are then ONE consistent set.
    Nothing else may (re)write them: a setter of the survey that refreshes
    the stored weights makes the gradient use other weights than the
    reported misfit."""
    import ast
    allowed = {'Simulation.misfit', 'Simulation.jtvec'}
    n = 0
    for rel in ('emg3d/surveys.py', 'emg3d/simulations.py'):
        m = ctx.repo.mod(rel)
        for st in ast.walk(m.tree):
            tgs = st.targets if isinstance(st, ast.Assign) else (
                [st.target] if isinstance(st, ast.AugAssign) else [])
            for t in tgs:
                key = None
                if isinstance(t, ast.Subscript) and isinstance(
                        t.slice, ast.Constant) and t.slice.value in (
                            'weights', 'residual') and isinstance(
                                t.value, ast.Attribute) and t.value.attr in (
                                    'data', '_data'):
                    key = t.slice.value
                elif isinstance(t, ast.Subscript) and isinstance(
                        t.value, ast.Attribute) and t.value.attr in (
                            'weights', 'residual') and isinstance(
                                t.value.value, ast.Attribute) and \
                        t.value.value.attr in ('data', '_data'):
                    key = t.value.attr
                if key is None:
                    continue
                n += 1
                q = au.qualname(st)
                ctx.check(rule, f'{q} `{au.stext(st)}`', q in allowed,
                          f'`{key}` of the data set is written in {q}: it '
                          'belongs to the misfit evaluation of a simulation '
                          '(together with the cached misfit); re-writing it '
                          'elsewhere makes the gradient use weights / a '
                          'residual that do not belong to the reported '
                          'misfit', ctx.where(m, st))
    ctx.need(n >= 2, f'only {n} stores of weights / residual found')


def run(ctx):
    ctx.explanation = (
        'Structural necessary conditions of gradient correctness: the '
        'anisotropy-case decision code is evaluated over the four cases and '
        'compared with the canonical table; chain-rule call sites are paired '
        'with components; the scatter kernel and amat_x are abstractly '
        'interpreted and the symbolic derivative of the operator rows with '
        'respect to the conductivity atoms is compared with the scatter '
        'weights; adjoint-source construction is read off the AST.')
    ctx.assumptions = ['the adjoint solve and the sign convention of the '
                       'adjoint source are not decided',
                       'eta = -s mu0 V sigma (proved in C02.O4)']
    case_definition(ctx, 'C07.TA.case')
    gradient_table(ctx, 'C07.TA.case', 'C07.CH.chain')
    ctx.floor('C07.TA.case', 9)
    scatter_and_material_derivative(ctx)
    adjoint_sources(ctx)
    # the misfit the gradient differentiates: half the weighted sum of the
    # residual that _get_rfield back-propagates, computed from the current
    # data (C13's path-wise lifting of Simulation.misfit)
    from .c13 import misfit_formula
    from ..core.report import Renamed
    misfit_formula(Renamed(ctx, lambda r: 'C07.AS.misfit'))
    # a cached gradient / misfit must not survive clean(): after a model
    # update + clean('computed') the gradient returned has to be the one of
    # the new model (rule of C12, shared)
    from ..core.report import Renamed
    from . import c12 as _c12
    _m = ctx.repo.mod(_c12.SIMS)
    _c12.rule_OW3(Renamed(ctx, lambda r: 'C07.AS.clean' if r.startswith(
        'C12.OW3.clean') else 'C07.AS.clean'.rsplit('.', 1)[0] + '.clean_files'),
        _m, _c12.Effects(ctx, _m))
    derived_owner(ctx, 'C07.AS.owner')
    # jtvec / gradient share the residual: after jtvec(v) the gradient must
    # again be the one of the misfit (rule family of C08, shared)
    from ..core.report import Filtered
    from . import c08 as _c08
    _c08.run(Filtered(ctx, 'C08.V4.weights', 'C07.AS.weights'))
    # the back-propagated field comes from the same solver: a source that is
    # not exactly zero is solved for, whatever its scale (zero-source rule of
    # C01, shared)
    from . import c01 as _c01
    _M = _c01.SolverModel(ctx)
    _c01.rule_R1(Filtered(ctx, 'C01.R1', 'C07.AS.solver'), _M)
