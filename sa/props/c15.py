"""C15 - volume averaging between grids conserves the integrated property
(three structural clauses; conservation itself is not decided).

Rules (DESIGN.md 4/C15):
  VA1  Model.interpolate_to_grid: log mode exactly for the non-log maps,
       volume method, identity shortcut, mapping kept
  VA2  maps.interpolate: log10 on entry and 10** on exit share one flag;
       volume branch hands nodes and target volumes to the kernel
  VA3  interp_volume_average: accumulate w_z*w_y*w_x*value from the `in`
       index into the `out` index, then divide by the target volume
  VA4  _volume_average_weights: weight = length of the merged sub-interval,
       clamped (nearest) input index
  VA5  gradient uses the transpose of the same kind of operator on the same
       pair of grids

Statement shapes are matched with AST templates (metavariables for locals,
commutative operands), not with source text.
"""
import ast

from ..core import astutil as au
from ..core.report import AnalysisError
from ..core.tables import FiniteEval
from ..core.template import find, has, require

LEVEL = 'other'
MAPS = 'emg3d/maps.py'
MODELS = 'emg3d/models.py'
SIMS = 'emg3d/simulations.py'
NAMES = ['Conductivity', 'LgConductivity', 'LnConductivity', 'Resistivity',
         'LgResistivity', 'LnResistivity']


def inline_locals(fn, node, depth=3):
    """Multiset of multiplicative factors of `node` after replacing
    single-assignment local names by their defining expression."""
    defs = {}
    for n in ast.walk(fn):
        if isinstance(n, ast.Assign) and len(n.targets) == 1 and isinstance(
                n.targets[0], ast.Name):
            defs.setdefault(n.targets[0].id, []).append(n.value)

    def factors(x, d):
        if isinstance(x, ast.BinOp) and isinstance(x.op, ast.Mult):
            return factors(x.left, d) + factors(x.right, d)
        if isinstance(x, ast.Name) and d > 0 and len(defs.get(x.id, [])) == 1 \
                and isinstance(defs[x.id][0], ast.BinOp):
            return factors(defs[x.id][0], d - 1)
        return [ast.unparse(x)]
    return sorted(factors(node, depth))


def rule_VA5(ctx, rule):
    mp = ctx.repo.mod(MAPS)
    # VA5
    adj = mp.func('_interp_volume_average_adj')
    ap = au.params(adj)
    b = require(ctx, rule, '_interp_volume_average_adj operator',
                f'_P_ = discretize.utils.volume_average({ap[1]}, {ap[3]})',
                adj, 'transpose operator is not the volume average from the '
                'old to the new grid', ctx.where(mp, adj))
    if b:
        P = b['_P_']
        for k in range(3):
            require(ctx, rule, f'_interp_volume_average_adj '
                    f'component {k}', f'{ap[0]}[{k}, ...] += ({P}.T * '
                    f"{ap[2]}[{k}, ...].ravel('F')).reshape(_s_, order='F')",
                    adj, f'component {k} is not brought back with the '
                    'transposed operator', ctx.where(mp, adj))
    sm = ctx.repo.mod(SIMS)
    g = [m for m in sm.methods('Simulation', 'gradient')
         if 'property' in au.decorator_names(m)][0]
    cs = au.calls(g, 'maps._interp_volume_average_adj')
    ctx.anchor(len(cs) == 1, '_interp_volume_average_adj call in gradient')
    kws = {k.arg: ast.unparse(k.value) for k in cs[0].keywords}
    gf = find('maps.interp_edges_to_vol_averages(ex=_g_.fx, ey=__, ez=__, '
              'volumes=__, ox=_grad_[0, ...], oy=__, oz=__)', g)
    fin = find('self._gradient = _G_[__, ..., :__].squeeze()', g)
    ok = bool(gf) and bool(fin) and kws == {
        ap[0]: fin[0][1]['_G_'], ap[1]: 'self.model.grid',
        ap[2]: gf[0][1]['_grad_'], ap[3]: gf[0][1]['_g_'] + '.grid'}
    ctx.check(rule, 'gradient -> _interp_volume_average_adj',
              ok, f'arguments {kws} do not map the gradient on the '
              'computational grid back to the model grid',
              ctx.where(sm, cs[0]))
    # the transposed average is left out ONLY for identical grids (equal
    # shapes are not equal grids: same cell numbers, other widths or origin)
    if gf and fin:
        from ..core.canon import negate
        from ..core.template import same
        G, gr, gfn = fin[0][1]['_G_'], gf[0][1]['_grad_'], gf[0][1]['_g_']
        eq = f'self.model.grid == {gfn}.grid'

        def conds(node):
            return [t if pol else negate(t)
                    for t, pol in au.guards_of(node, g)]
        direct = [n for n in ast.walk(g) if isinstance(n, ast.AugAssign) and
                  isinstance(n.op, ast.Add) and ast.unparse(n.target) == G
                  and ast.unparse(n.value) == gr]
        for n in direct:
            ctx.check(rule, 'gradient added directly only on the model grid',
                      any(same(eq, c) is not None for c in conds(n)),
                      f'`{au.stext(n)}` (no transposed volume average) is '
                      f'reached under {[ast.unparse(c) for c in conds(n)]}, '
                      'not under equality of model grid and computational '
                      'grid: a computational grid with the same shape but '
                      'other cell widths adds its gradient cell by cell',
                      ctx.where(sm, n))
        other = [c for c in conds(cs[0]) if same(
            f'self.model.grid != {gfn}.grid', c) is None and
            {x.id for x in ast.walk(c) if isinstance(x, ast.Name)} &
            {G, gr, gfn}]
        ctx.check(rule, 'transposed average applied whenever the grids '
                  'differ', not other or bool(direct), 'the call of '
                  '_interp_volume_average_adj depends on '
                  f'{[ast.unparse(c) for c in other]} and there is no direct '
                  'accumulation for the remaining case', ctx.where(sm, cs[0]))


def rule_equal_grids(ctx):
    """`Model.interpolate_to_grid` returns the model itself when the grids
    are equal -- the identity clause.  That is only right if mesh equality
    really compares both meshes: class, shape, the three width vectors and
    the origin of SELF with those of the OTHER mesh (a comparison of a
    vector with itself makes meshes that differ in that direction equal, and
    the model comes back un-averaged on the old grid)."""
    from ..core.template import find as _find
    me = ctx.repo.mod('emg3d/meshes.py')
    eq = me.method('TensorMesh', '__eq__')
    other = au.params(eq)[1]
    for what, pats in (
            ('h[0]', ['np.allclose(self.h[0], {o}.h[0], **__)',
                      'np.allclose(self.h[0], {o}.h[0])',
                      'np.array_equal(self.h[0], {o}.h[0])']),
            ('h[1]', ['np.allclose(self.h[1], {o}.h[1], **__)',
                      'np.allclose(self.h[1], {o}.h[1])',
                      'np.array_equal(self.h[1], {o}.h[1])']),
            ('h[2]', ['np.allclose(self.h[2], {o}.h[2], **__)',
                      'np.allclose(self.h[2], {o}.h[2])',
                      'np.array_equal(self.h[2], {o}.h[2])']),
            ('origin', ['np.allclose(self.origin, {o}.origin, **__)',
                        'np.allclose(self.origin, {o}.origin)',
                        'np.array_equal(self.origin, {o}.origin)']),
            ('shape_cells', ['np.all(self.shape_cells == {o}.shape_cells)',
                             'self.shape_cells == {o}.shape_cells',
                             'np.array_equal(self.shape_cells, '
                             '{o}.shape_cells)'])):
        got = []
        for p_ in pats:
            p_ = p_.format(o=other)
            if '**__' in p_:
                # any keyword arguments
                for c in au.calls(eq, p_.split('(')[0]):
                    if len(c.args) == 2 and sorted(
                            ast.unparse(a) for a in c.args) == sorted(
                                x.strip() for x in p_.split('(', 1)[1]
                                .rsplit(', **', 1)[0].split(', ')):
                        got.append(c)
            else:
                got += [n_ for n_, _b in _find(p_, eq)]
        ctx.check('C15.VA1.identity', f'TensorMesh.__eq__ compares {what} '
                  'of both meshes', bool(got),
                  f'{what} of this mesh is not compared with {what} of the '
                  'other mesh: meshes that differ there are "equal", and '
                  'interpolate_to_grid returns the model unchanged on its '
                  'old grid instead of the volume average',
                  ctx.where(me, eq))
    mm = ctx.repo.mod('emg3d/models.py')
    itg = mm.method('Model', 'interpolate_to_grid')
    ctx.check('C15.VA1.identity', 'interpolate_to_grid: shortcut on mesh '
              'equality', any(has(p_, itg) for p_ in (
                  f'if {au.params(itg)[1]} == self.grid:\n    return self',
                  f'if self.grid == {au.params(itg)[1]}:\n    return self')),
              'the identity shortcut is not taken on equality of the two '
              'grids', ctx.where(mm, itg))


def rule_kernel_output(ctx):
    """The volume average is what the kernel computes, for every cell of the
    new grid (cells outside the source grid get the nearest values inside
    the kernel's weights): after the kernel call nothing writes INTO the
    result (`extrapolate` belongs to the point-wise methods)."""
    mp = ctx.repo.mod('emg3d/maps.py')
    fn = mp.func('interpolate')
    calls = au.calls(fn, 'interp_volume_average')
    ctx.anchor(len(calls) == 1, 'interp_volume_average call in interpolate')
    out = [ast.unparse(k.value) for k in calls[0].keywords
           if k.arg == 'new_values']
    ctx.anchor(len(out) == 1, 'new_values argument of the kernel call')
    bad = []
    for st in ast.walk(fn):
        tgs = st.targets if isinstance(st, ast.Assign) else (
            [st.target] if isinstance(st, ast.AugAssign) else [])
        for t in tgs:
            if isinstance(t, ast.Subscript) and ast.unparse(t.value) == \
                    out[0]:
                bad.append(st)
    ctx.check('C15.VA2.callsite', 'interpolate: nothing writes into the '
              'volume average', not bad,
              f'`{au.stext(bad[0]) if bad else ""}` overwrites entries of '
              'the averaged values: the result is no longer the volume '
              'average (not the operator whose transpose brings gradients '
              'back, values leave the range of the input, outside cells are '
              'not the nearest values)', ctx.where(mp, bad[0] if bad else fn))
    arm = [n for n in ast.walk(fn) if isinstance(n, ast.If) and any(
        c is calls[0] for x in n.body for c in ast.walk(x))]
    uses = [x for n in arm[-1:] for st in n.body for x in ast.walk(st)
            if isinstance(x, ast.Name) and x.id == 'extrapolate']
    ctx.check('C15.VA2.callsite', 'interpolate: volume averaging does not '
              'depend on `extrapolate`', not uses, 'the volume branch reads '
              '`extrapolate`: volume averaging always fills cells outside '
              'the source grid with the nearest values',
              ctx.where(mp, uses[0] if uses else fn))


def run(ctx):
    ctx.explanation = (
        'Flag/guard pairing and kernel shape of the volume-average path are '
        'matched with AST templates (metavariables for locals, commutative '
        'operands); the log-mode expression is evaluated over the six '
        'registered map names.  Conservation, range and nearest-fill (the '
        'merge loop of the weights is data dependent) are not decided.')
    ctx.assumptions = ['discretize.utils.volume_average is the same linear '
                       'map as interp_volume_average (third party)']
    mm = ctx.repo.mod(MODELS)
    fn = mm.method('Model', 'interpolate_to_grid')
    ps = au.params(fn)
    d = [n for n in ast.walk(fn) if isinstance(n, ast.Dict) and any(
        isinstance(k, ast.Constant) and k.value == 'log' for k in n.keys)
        and any(isinstance(k, ast.Constant) and k.value == 'method'
                for k in n.keys)]
    ctx.anchor(len(d) == 1, 'interpolation options in '
               'Model.interpolate_to_grid')
    kv = {k.value: v for k, v in zip(d[0].keys, d[0].values)
          if isinstance(k, ast.Constant)}
    for name in NAMES:
        fe = FiniteEval({'self.map.name': name}, where=mm.rel)
        got = bool(fe.ev(kv['log']))
        want = not name.startswith('L')
        ctx.check('C15.VA1.log', f'interpolate_to_grid log mode for {name}',
                  got == want, f'log={got} for mapping {name}: averaging '
                  'must be logarithmic in the linear parametrisations and '
                  'linear in the logarithmic ones', ctx.where(mm, d[0]),
                  sample={'mapping': name, 'log': got})
    ctx.floor('C15.VA1.log', 6)

    def kvtxt(k):
        return ast.unparse(kv[k]) if k in kv else None
    ctx.check('C15.VA1.options', 'interpolate_to_grid uses volume averaging',
              kvtxt('method') == "'volume'" and kvtxt('extrapolate') == 'True'
              and kvtxt('grid') == 'self.grid' and kvtxt('xi') == ps[1],
              f'model interpolation options are method={kvtxt("method")}, '
              f'extrapolate={kvtxt("extrapolate")}, grid={kvtxt("grid")}, '
              f'xi={kvtxt("xi")}', ctx.where(mm, d[0]))
    # order in the options literal: documented defaults before the caller's
    # options (which override them), the two grids after (forced)
    pos = {(k.value if isinstance(k, ast.Constant) else '**'): i
           for i, k in enumerate(d[0].keys) if k is None or
           isinstance(k, ast.Constant)}
    star = [i for i, k in enumerate(d[0].keys) if k is None]
    doc = ast.get_docstring(fn) or ''
    import re as _re
    documented = set(_re.findall(r"``(\w+)=", doc))
    ctx.anchor({'method', 'log', 'extrapolate'} <= documented,
               'documented defaults of interpolate_to_grid')
    ok = len(star) == 1 and all(pos.get(k, 99) < star[0]
                                for k in documented) and \
        all(pos.get(k, -1) > star[0] for k in ('grid', 'xi'))
    ctx.check('C15.VA1.options', 'interpolate_to_grid: defaults < caller '
              'options < grids', ok, 'the documented defaults '
              f'{sorted(documented)} must precede **options in the literal '
              '(so that the caller can override them) and grid/xi must '
              'follow it; an explicit option of the caller is ignored '
              'otherwise', ctx.where(mm, d[0]),
              sample={'order': [ast.unparse(k) if k is not None else '**'
                                for k in d[0].keys]})
    # mu_r / epsilon_r are not mapped: their log flag must not come from the
    # mapping (shared rule of C14)
    from .c14 import rule_unmapped
    from ..core.report import Renamed
    rule_unmapped(Renamed(ctx, lambda r: 'C15.VA1.log'))
    require(ctx, 'C15.VA1.options', 'interpolate_to_grid identity shortcut',
            f'if {ps[1]} == self.grid:\n    return self', fn,
            'interpolation to the own grid is not the identity',
            ctx.where(mm, fn))
    lps = [n for n in ast.walk(fn) if isinstance(n, ast.For) and
           ast.unparse(n.iter) == 'self._def_properties' and
           isinstance(n.target, ast.Name)]
    b = None
    okl = len(lps) == 1
    if okl:
        pv_ = lps[0].target.id
        gv = find(f'_v_ = getattr(self, {pv_})', lps[0])
        st_ = find(f'_m_[{pv_}] = maps.interpolate(values=_v_, **_o_)',
                   lps[0])
        okl = len(gv) == 1 and len(st_) == 1 and \
            gv[0][1]['_v_'] == st_[0][1]['_v_'] and \
            not au.guards_of(st_[0][0], lps[0])
        if okl:
            b = st_[0][1]
            gname = [ast.unparse(t) for n_ in ast.walk(fn) if isinstance(
                n_, ast.Assign) and n_.value is d[0] for t in n_.targets]
            O = b['_o_']
            odefs = [n_ for n_ in ast.walk(lps[0]) if isinstance(
                n_, ast.Assign) and ast.unparse(n_.targets[0]) == O]
            okl = bool(gname) and (O == gname[0] or (odefs and all(
                ast.unparse(n_.value) == gname[0] or
                has(f"{{**{gname[0]}, 'log': __}}", n_.value)
                for n_ in odefs)))
    ctx.check('C15.VA1.options', 'interpolate_to_grid: every defined '
              'property', okl, 'not every defined property is interpolated '
              'with the common options (only the log flag may differ for the '
              'unmapped properties)', ctx.where(mm, fn))
    if b:
        require(ctx, 'C15.VA1.options', 'interpolate_to_grid keeps the '
                'mapping', f'return Model({ps[1]}, mapping=self.map.name, '
                f'**{b["_m_"]})', fn, 'mapping is not kept / interpolated '
                'properties not used', ctx.where(mm, fn))
    # the transpose that brings the gradient back belongs to the LINEAR
    # volume average; the model itself is brought to the computational grid
    # in log space for the linear mappings (table VA1.log) and by averaging
    # the log values for the others: the Jacobian of that map is
    # diag(sigma_c) P diag(1/sigma_m), not P.  Without those factors the
    # gradient (and J v) is exact only for gridding='same' or homogeneous
    # models
    sm_ = ctx.repo.mod('emg3d/simulations.py')
    g_ = [m for m in sm_.methods('Simulation', 'gradient')
          if 'property' in au.decorator_names(m)][0]
    adj = [c for c in au.calls(g_) if ast.unparse(c.func) ==
           'maps._interp_volume_average_adj']
    ctx.anchor(len(adj) == 1, '_interp_volume_average_adj call in gradient')
    gm = sm_.method('Simulation', 'get_model')
    fw_default = has('self.model.interpolate_to_grid(_g_)', gm)
    scaled = any(isinstance(n, (ast.AugAssign, ast.BinOp)) and isinstance(
        getattr(n, 'op', None), (ast.Mult, ast.Div)) and (
            'property_' in ast.unparse(n) or 'backward' in ast.unparse(n))
        and n.lineno < adj[0].lineno + 3 and n.lineno > adj[0].lineno - 12
        for n in ast.walk(g_))
    ctx.check('C15.VA5.adjoint', 'gradient: Jacobian of the forward model '
              'interpolation', scaled or not fw_default,
              'get_model averages the model with the default (log-space) '
              'options, the gradient is brought back with the transpose of '
              'the linear average and no conductivity-ratio factors: for a '
              'computational grid different from the model grid the gradient '
              'is not the derivative of the misfit (ratio sigma_m/sigma_c per '
              'cell)', ctx.where(sm_, adj[0]))
    # VA2
    mp = ctx.repo.mod(MAPS)
    it = mp.func('interpolate')
    first = find('if log:\n    _v_ = np.log10(_v_)', it)
    last = find('if log:\n    _w_ = 10**_w_', it)
    reass = [n for n in ast.walk(it) if isinstance(n, (ast.Assign,
                                                       ast.AugAssign))
             and any(ast.unparse(t_) == 'log' for t_ in (
                 n.targets if isinstance(n, ast.Assign) else [n.target]))]
    ok = len(first) == 1 and len(last) == 1 and not reass and \
        first[0][0].lineno < last[0][0].lineno and \
        first[0][1]['_v_'] in au.all_params(it)
    ctx.check('C15.VA2.flag', 'maps.interpolate: log10 in / 10** out under '
              'the same flag', ok, 'logarithm on entry and power on exit are '
              'not guarded by one unchanged flag', ctx.where(mp, it))
    if ok:
        rets = [n for n in ast.walk(it) if isinstance(n, ast.Return)]
        ctx.check('C15.VA2.flag', 'maps.interpolate returns the '
                  'back-transformed values', len(rets) == 1 and
                  last[0][1]['_w_'] in ast.unparse(rets[0].value),
                  'the returned array is not the one the power is applied to',
                  ctx.where(mp, it))
    pts = find('_p_, _np_, _sh_ = _points_from_grids(__, __, __, __)', it)
    ctx.anchor(len(pts) == 1, 'point vectors in maps.interpolate')
    bb = pts[0][1]
    vname = first[0][1]['_v_'] if first else 'values'
    call = find('interp_volume_average(nodes_x=_p_[0], nodes_y=_p_[1], '
                'nodes_z=_p_[2], values=_v_, new_nodes_x=_np_[0], '
                'new_nodes_y=_np_[1], new_nodes_z=_np_[2], new_values=_o_, '
                "new_vol=_xi_.cell_volumes.reshape(_sh_, order='F'))", it,
                dict(bb, _v_=vname))
    ctx.check('C15.VA2.callsite', 'maps.interpolate -> interp_volume_average',
              len(call) == 1, 'old/new node vectors, values and target '
              'volumes are not handed to the kernel in their roles',
              ctx.where(mp, it))
    if call:
        c, cb = call[0]
        gs = [(ast.unparse(t_).replace(' ', ''), p)
              for t_, p in au.guards_of(c, it)]
        # (a false `method == 'other'` is implied by `method == 'volume'`)
        pos_ = [g for g, p in gs if p and g.startswith(f"{mname}==")] \
            if (mname := au.params(it)[3] if len(au.params(it)) > 3
                else 'method') else []
        if pos_:
            gs = [(g, p) for g, p in gs if p or not g.startswith(
                f"{mname}==")]
        ctx.check('C15.VA2.callsite', 'kernel only in volume mode',
                  gs == [("method=='volume'", True)],
                  f'kernel call is guarded by {gs}', ctx.where(mp, c))
        zero = find(f'{cb["_o_"]} = np.zeros(_sh_, order=__, dtype=__)', it,
                    {'_sh_': bb['_sh_']})
        ctx.check('C15.VA2.callsite', 'accumulator starts at zero',
                  len(zero) == 1 and zero[0][0].lineno < c.lineno,
                  'target array is not zero before accumulation',
                  ctx.where(mp, it))
    # VA3
    kv_ = mp.func('interp_volume_average')
    kp = au.params(kv_)
    ctx.anchor(len(kp) == 9, 'interp_volume_average signature')
    wb = {}
    for a, ax in enumerate('xyz'):
        f = find(f'_w_, _i_, _o_ = _volume_average_weights({kp[a]}, '
                 f'{kp[4 + a]})', kv_)
        ctx.check('C15.VA3.kernel', f'interp_volume_average weights axis '
                  f'{ax}', len(f) == 1, f'weights of axis {ax} are not built '
                  'from (old nodes, new nodes) of this axis',
                  ctx.where(mp, kv_))
        if f:
            wb[a] = f[0][1]
    acc = find(f'{kp[7]}[_a_, _b_, _c_] += __ * {kp[3]}[_d_, _e_, _f_]', kv_)
    ctx.check('C15.VA3.kernel', 'interp_volume_average accumulation',
              len(acc) == 1, 'kernel does not accumulate weight x input '
              'value into the output cell', ctx.where(mp, kv_))
    if acc and len(wb) == 3:
        n, ab = acc[0]
        loops = {}
        for lp in [x for x in ast.walk(kv_) if isinstance(x, ast.For)]:
            if isinstance(lp.target, ast.Tuple) and len(lp.target.elts) == 2 \
                    and isinstance(lp.iter, ast.Call) and ast.unparse(
                        lp.iter.func) == 'enumerate':
                loops[ast.unparse(lp.iter.args[0])] = (
                    lp.target.elts[0].id, lp.target.elts[1].id, lp)
        wnames = []
        for a, (oi, ii) in enumerate((('_a_', '_d_'), ('_b_', '_e_'),
                                      ('_c_', '_f_'))):
            w = wb[a]
            lp = loops.get(w['_w_'])
            ok = lp is not None and \
                has(f'{ab[oi]} = {w["_o_"]}[{lp[0]}]', kv_) and \
                has(f'{ab[ii]} = {w["_i_"]}[{lp[0]}]', kv_)
            ctx.check('C15.VA3.kernel', f'interp_volume_average indices axis '
                      f'{"xyz"[a]}', bool(ok), 'output index is not taken '
                      'from the out-index vector / input index from the '
                      'in-index vector of this axis', ctx.where(mp, n))
            if lp:
                wnames.append(lp[1])
        fac = inline_locals(kv_, n.value)
        want = sorted(wnames + [ast.unparse(find(
            f'{kp[3]}[_d_, _e_, _f_]', n.value)[0][0])])
        ctx.check('C15.VA3.kernel', 'interp_volume_average weight product',
                  fac == want, f'accumulated term has the factors {fac}; '
                  f'the overlap volume is the product of {wnames}',
                  ctx.where(mp, n), sample={'factors': fac})
    last = au.body_nodoc(kv_)[-1]
    ctx.check('C15.VA3.kernel', 'interp_volume_average normalisation',
              has(f'{kp[7]} /= {kp[8]}', last) and not isinstance(
                  au.parent(last), ast.For),
              'accumulated values are not divided by the target cell '
              'volumes at the end', ctx.where(mp, last))
    # VA4
    vw = mp.func('_volume_average_weights')
    vp = au.params(vw)
    b = require(ctx, 'C15.VA4.weights', '_volume_average_weights merged '
                'nodes', f'_xs_ = np.unique(np.concatenate(({vp[0]}, '
                f'{vp[1]})))', vw, 'sub-intervals are not built from the '
                'union of both node vectors', ctx.where(mp, vw))
    if b:
        xs = b['_xs_']
        require(ctx, 'C15.VA4.weights', '_volume_average_weights: weight = '
                'sub-interval length', f'_w_[_k_] = {xs}[_i_ + 1] - {xs}[_i_]',
                vw, 'weights are not the lengths of the merged '
                'sub-intervals', ctx.where(mp, vw))
        require(ctx, 'C15.VA4.weights', '_volume_average_weights: interval '
                'midpoint', f'_c_ = 0.5 * ({xs}[_i_] + {xs}[_i_ + 1])', vw,
                'cells are not located by the sub-interval midpoint',
                ctx.where(mp, vw))
    clamp = find('_ix_[_k_] = min(max(_j_ - 1, 0), _n_ - 1)', vw)
    ctx.check('C15.VA4.weights', '_volume_average_weights clamped indices '
              '(nearest fill)', len(clamp) == 2, 'cell indices are not '
              'clamped to the grid (nearest values outside the source grid)',
              ctx.where(mp, vw))
    rule_VA5(ctx, 'C15.VA5.adjoint')
    rule_equal_grids(ctx)
    rule_kernel_output(ctx)
    ctx.floor('C15.VA3.kernel', 8)
