"""C15 - volume averaging between grids conserves the integrated property
(three structural clauses; conservation itself is not decided).

Rules (DESIGN.md 4/C15):
  VA1  Model.interpolate_to_grid: log mode exactly for the non-log maps,
       volume method, identity shortcut, mapping kept
  VA2  maps.interpolate: log10 on entry and 10** on exit share one flag;
       volume branch hands nodes and target volumes to the kernel
  VA3  interp_volume_average: accumulate w_z*w_y*w_x*value from the `in`
       index into the `out` index, then divide by the target volume
  VA4  _volume_average_weights: weight = length of the merged sub-interval
  VA5  gradient uses the transpose of the same kind of operator on the same
       pair of grids
"""
import ast

from ..core import astutil as au
from ..core.report import AnalysisError
from ..core.tables import FiniteEval

LEVEL = 'other'
MAPS = 'emg3d/maps.py'
MODELS = 'emg3d/models.py'
SIMS = 'emg3d/simulations.py'
NAMES = ['Conductivity', 'LgConductivity', 'LnConductivity', 'Resistivity',
         'LgResistivity', 'LnResistivity']


def run(ctx):
    ctx.explanation = (
        'Flag/guard pairing and kernel shape of the volume-average path are '
        'read off the AST; the log-mode expression is evaluated over the six '
        'registered map names.  Conservation, range and nearest-fill (the '
        'merge loop of the weights is data dependent) are not decided.')
    ctx.assumptions = ['discretize.utils.volume_average is the same linear '
                       'map as interp_volume_average (third party)']
    mm = ctx.repo.mod(MODELS)
    fn = mm.method('Model', 'interpolate_to_grid')
    ps = au.params(fn)
    d = [n for n in ast.walk(fn) if isinstance(n, ast.Dict) and any(
        isinstance(k, ast.Constant) and k.value == 'log' for k in n.keys)]
    ctx.anchor(len(d) == 1, 'interpolation options in '
               'Model.interpolate_to_grid')
    kv = {k.value: v for k, v in zip(d[0].keys, d[0].values)
          if isinstance(k, ast.Constant)}
    for name in NAMES:
        fe = FiniteEval({'self.map.name': name}, where=mm.rel)
        got = bool(fe.ev(kv['log']))
        want = not name.startswith('L')
        ctx.check('C15.VA1.log', f'interpolate_to_grid log mode for {name}',
                  got == want, f'log={got} for mapping {name}: averaging '
                  'must be logarithmic in the linear parametrisations and '
                  'linear in the logarithmic ones', ctx.where(mm, d[0]),
                  sample={'mapping': name, 'log': got})
    ctx.floor('C15.VA1.log', 6)
    ctx.check('C15.VA1.options', 'interpolate_to_grid uses volume averaging',
              ast.unparse(kv.get('method', ast.Constant(None))) == "'volume'"
              and ast.unparse(kv.get('extrapolate', ast.Constant(None))) ==
              'True' and ast.unparse(kv.get('grid')) == 'self.grid' and
              ast.unparse(kv.get('xi')) == ps[1],
              'model interpolation is not method=volume, extrapolate=True '
              'from self.grid to the new grid', ctx.where(mm, d[0]))
    body = au.body_nodoc(fn)
    first = body[0]
    ok = isinstance(first, ast.If) and ast.unparse(first.test).replace(
        ' ', '') == f'{ps[1]}==self.grid' and ast.unparse(
            first.body[0]) == 'return self'
    ctx.check('C15.VA1.options', 'interpolate_to_grid identity shortcut', ok,
              'interpolation to the own grid is not the identity',
              ctx.where(mm, fn))
    t = ast.unparse(fn).replace(' ', '')
    ctx.check('C15.VA1.options', 'interpolate_to_grid keeps the mapping and '
              'all defined properties',
              'forpropinself._def_properties:' in t and
              'model_inp[prop]=maps.interpolate(values=var,**g2g_inp)' in t
              and f'returnModel({ps[1]},mapping=self.map.name,**model_inp)'
              in t, 'not every defined property is interpolated / mapping '
              'not kept', ctx.where(mm, fn))
    # VA2
    mp = ctx.repo.mod(MAPS)
    it = mp.func('interpolate')
    ips = au.all_params(it)
    ifs = [n for n in it.body if isinstance(n, ast.If) and
           ast.unparse(n.test) == 'log']
    ok = len(ifs) == 2 and ast.unparse(ifs[0].body[0]).replace(' ', '') == \
        'values=np.log10(values)' and ast.unparse(ifs[1].body[0]).replace(
            ' ', '') == 'values_x=10**values_x' and it.body.index(ifs[0]) \
        < it.body.index(ifs[1])
    reass = [n for n in ast.walk(it) if isinstance(n, (ast.Assign,
                                                       ast.AugAssign))
             and any(ast.unparse(t_) == 'log' for t_ in (
                 n.targets if isinstance(n, ast.Assign) else [n.target]))]
    ctx.check('C15.VA2.flag', 'maps.interpolate: log10 in / 10** out under '
              'the same flag', ok and not reass, 'logarithm on entry and '
              'power on exit are not guarded by one unchanged flag',
              ctx.where(mp, it))
    call = au.calls(it, 'interp_volume_average')
    ctx.anchor(len(call) == 1, 'interp_volume_average call')
    kws = {k.arg: ast.unparse(k.value).replace(' ', '')
           for k in call[0].keywords}
    want = {'nodes_x': 'points[0]', 'nodes_y': 'points[1]',
            'nodes_z': 'points[2]', 'values': 'values',
            'new_nodes_x': 'new_points[0]', 'new_nodes_y': 'new_points[1]',
            'new_nodes_z': 'new_points[2]', 'new_values': 'values_x',
            'new_vol': "xi.cell_volumes.reshape(shape,order='F')"}
    ctx.check('C15.VA2.callsite', 'maps.interpolate -> interp_volume_average',
              kws == want and [ast.unparse(t_).replace(' ', '') for t_, p in
                               au.guards_of(call[0], it)] ==
              ["method=='volume'"], f'arguments {kws}',
              ctx.where(mp, call[0]), sample={'keywords': kws})
    zero = [n for n in ast.walk(it) if isinstance(n, ast.Assign) and
            ast.unparse(n.targets[0]) == 'values_x' and 'np.zeros' in
            ast.unparse(n.value)]
    ctx.check('C15.VA2.callsite', 'maps.interpolate: accumulator starts at '
              'zero', len(zero) == 1 and zero[0].lineno < call[0].lineno,
              'target array is not zero before accumulation',
              ctx.where(mp, it))
    # VA3
    kv_ = mp.func('interp_volume_average')
    kp = au.params(kv_)
    t = ast.unparse(kv_).replace(' ', '')
    for ax, (nin, nout) in zip('xyz', ((kp[0], kp[4]), (kp[1], kp[5]),
                                       (kp[2], kp[6]))):
        ctx.check('C15.VA3.kernel', f'interp_volume_average weights axis '
                  f'{ax}', f'w{ax},i{ax}_in,i{ax}_out='
                  f'_volume_average_weights({nin},{nout})' in t,
                  f'weights of axis {ax} are not built from (old nodes, new '
                  'nodes) of this axis', ctx.where(mp, kv_))
        ctx.check('C15.VA3.kernel', f'interp_volume_average indices axis '
                  f'{ax}', f'i{ax}i=i{ax}_in[i{ax}]' in t and
                  f'i{ax}o=i{ax}_out[i{ax}]' in t,
                  'input / output cell indices are not taken from the in / '
                  'out index vectors', ctx.where(mp, kv_))
    acc = [n for n in ast.walk(kv_) if isinstance(n, ast.AugAssign) and
           ast.unparse(n.target).replace(' ', '') ==
           f'{kp[7]}[ixo,iyo,izo]']
    ok = len(acc) == 1 and isinstance(acc[0].op, ast.Add) and ast.unparse(
        acc[0].value).replace(' ', '') in (
            f'w_zy*w_x*{kp[3]}[ixi,iyi,izi]',
            f'w_z*w_y*w_x*{kp[3]}[ixi,iyi,izi]') and 'w_zy=w_z*w_y' in t
    ctx.check('C15.VA3.kernel', 'interp_volume_average accumulation', ok,
              'kernel does not add (overlap volume) x (input value) from the '
              'input cell to the output cell', ctx.where(mp, kv_))
    last = au.body_nodoc(kv_)[-1]
    ctx.check('C15.VA3.kernel', 'interp_volume_average normalisation',
              ast.unparse(last).replace(' ', '') == f'{kp[7]}/={kp[8]}',
              'accumulated values are not divided by the target cell '
              'volumes at the end', ctx.where(mp, last))
    # VA4
    vw = mp.func('_volume_average_weights')
    vp = au.params(vw)
    t = ast.unparse(vw).replace(' ', '')
    ctx.check('C15.VA4.weights', '_volume_average_weights merged nodes',
              f'xs=np.unique(np.concatenate(({vp[0]},{vp[1]})))' in t and
              'wx[ii]=xs[i+1]-xs[i]' in t and
              'center=0.5*(xs[i]+xs[i+1])' in t,
              'weights are not the lengths of the merged sub-intervals',
              ctx.where(mp, vw))
    ctx.check('C15.VA4.weights', '_volume_average_weights range of the '
              'target grid', f'if{vp[1]}[0]<=centerandcenter<={vp[1]}[n2-1]:'
              in t, 'sub-intervals are not restricted to the target grid',
              ctx.where(mp, vw))
    ctx.check('C15.VA4.weights', '_volume_average_weights clamped indices '
              '(nearest fill)', 'ix_i[ii]=min(max(i1-1,0),n1-1)' in t and
              'ix_o[ii]=min(max(i2-1,0),n2-1)' in t and
              'return(wx[:ii],ix_i[:ii],ix_o[:ii])' in t,
              'input cells outside the source grid are not clamped to the '
              'nearest cell', ctx.where(mp, vw))
    # VA5
    adj = mp.func('_interp_volume_average_adj')
    ap = au.params(adj)
    t = ast.unparse(adj).replace(' ', '')
    ok = f'P=discretize.utils.volume_average({ap[1]},{ap[3]})' in t and all(
        f"{ap[0]}[{k},...]+=(P.T*{ap[2]}[{k},...].ravel('F'))."
        f"reshape(shape,order='F')" in t for k in range(3)) and \
        f'shape={ap[1]}.shape_cells' in t
    ctx.check('C15.VA5.adjoint', '_interp_volume_average_adj', ok,
              'gradient is not brought back with the transpose of the '
              'volume-average operator (old grid -> new grid), component by '
              'component', ctx.where(mp, adj))
    sm = ctx.repo.mod(SIMS)
    g = [m for m in sm.methods('Simulation', 'gradient')
         if 'property' in au.decorator_names(m)][0]
    cs = au.calls(g, 'maps._interp_volume_average_adj')
    ctx.anchor(len(cs) == 1, '_interp_volume_average_adj call in gradient')
    kws = {k.arg: ast.unparse(k.value) for k in cs[0].keywords}
    ctx.check('C15.VA5.adjoint', 'gradient -> _interp_volume_average_adj',
              kws == {ap[0]: 'gradient', ap[1]: 'self.model.grid',
                      ap[2]: 'grad', ap[3]: 'gfield.grid'} and [
                  (ast.unparse(t_).replace(' ', ''), p) for t_, p in
                  au.guards_of(cs[0], g)][-1] ==
              ('self.model.grid!=gfield.grid', True),
              f'arguments {kws}', ctx.where(sm, cs[0]))
    ctx.floor('C15.VA3.kernel', 8)
