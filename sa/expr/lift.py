"""Engine C: lift small numpy expressions from the AST into sympy.

`Lifter.lift(node)` maps an expression to a sympy expression; names and
attribute paths are looked up by their source text in `env`, unknown ones
become opaque symbols (recorded) unless strict.  `straight_paths` enumerates
the if/else paths of a straight-line block, applying assignments (with alias
groups so that in-place `a /= b` on `a = v` also changes `v`), and returns the
final environment per path.  No solver, no execution: equality is decided by
`equal()` = simplify(a - b) == 0 with a fixed set of rewrites.
"""
import ast

import sympy as sp

from ..core.report import AnalysisError

LOG10 = sp.log(10)


def equal(a, b):
    d = sp.simplify(sp.expand_log(sp.expand(a - b), force=True))
    if d == 0:
        return True
    d = sp.simplify(sp.expand(sp.powsimp(sp.expand_power_base(
        d, force=True), force=True)))
    if d == 0:
        return True
    try:
        return bool(sp.simplify(sp.nsimplify(d)) == 0)
    except Exception:
        return False


class Lifter:
    def __init__(self, env=None, funcs=None, where='?', strict=False,
                 sym_assume=None):
        self.env = dict(env or {})
        self.funcs = dict(funcs or {})
        self.where = where
        self.strict = strict
        self.opaque = {}
        self.sym_assume = sym_assume or {}

    def err(self, n, msg):
        return AnalysisError(
            f'{self.where}:{getattr(n, "lineno", "?")}: expression lifter: '
            f'{msg}: `{ast.unparse(n)[:70]}`')

    def symbol(self, text):
        if text not in self.opaque:
            self.opaque[text] = sp.Symbol(
                text.replace(' ', ''), **self.sym_assume)
        return self.opaque[text]

    def lookup(self, n):
        txt = ast.unparse(n)
        if txt in self.env:
            return self.env[txt]
        if self.strict:
            raise self.err(n, f'unknown name {txt}')
        return self.symbol(txt)

    def lift(self, n):
        if isinstance(n, ast.Constant):
            v = n.value
            if isinstance(v, bool) or v is None:
                raise self.err(n, 'non-numeric constant')
            if isinstance(v, complex):
                return sp.nsimplify(v.imag) * sp.I
            if isinstance(v, (int, float)):
                return sp.nsimplify(v, rational=True)
            raise self.err(n, 'constant')
        if isinstance(n, ast.Name):
            return self.lookup(n)
        if isinstance(n, ast.Attribute):
            txt = ast.unparse(n)
            if txt in self.env:
                return self.env[txt]
            if txt in ('np.pi',):
                return sp.pi
            if n.attr == 'real':
                return sp.re(self.lift(n.value))
            if n.attr in ('data', 'T'):
                if txt in self.env:
                    return self.env[txt]
                return self.lift(n.value)
            return self.lookup(n)
        if isinstance(n, ast.Subscript):
            txt = ast.unparse(n)
            if txt in self.env:
                return self.env[txt]
            return self.lookup(n)
        if isinstance(n, ast.UnaryOp):
            v = self.lift(n.operand)
            if isinstance(n.op, ast.USub):
                return -v
            if isinstance(n.op, ast.UAdd):
                return v
            raise self.err(n, 'unary operator')
        if isinstance(n, ast.BinOp):
            a, b = self.lift(n.left), self.lift(n.right)
            if isinstance(n.op, ast.Add):
                return a + b
            if isinstance(n.op, ast.Sub):
                return a - b
            if isinstance(n.op, ast.Mult):
                return a * b
            if isinstance(n.op, ast.Div):
                return a / b
            if isinstance(n.op, ast.Pow):
                return a ** b
            raise self.err(n, 'binary operator')
        if isinstance(n, ast.Call):
            return self.call(n)
        raise self.err(n, f'expression kind {type(n).__name__}')

    def call(self, n):
        f = ast.unparse(n.func)
        if f in self.funcs:
            return self.funcs[f](*[self.lift(a) for a in n.args])
        args = n.args
        one = {'np.sqrt': sp.sqrt, 'np.exp': sp.exp, 'np.log': sp.log,
               'np.log10': lambda x: sp.log(x) / LOG10,
               'abs': sp.Abs, 'np.abs': sp.Abs, 'np.absolute': sp.Abs,
               'np.conj': sp.conjugate, 'np.real': sp.re,
               'np.cos': sp.cos, 'np.sin': sp.sin, 'np.arctan2': sp.atan2,
               'np.arcsin': sp.asin,
               'np.deg2rad': lambda x: x * sp.pi / 180,
               'np.array': lambda x: x, 'np.asarray': lambda x: x,
               'np.squeeze': lambda x: x, 'float': lambda x: x,
               'sp.special.cosdg': lambda x: sp.cos(x * sp.pi / 180),
               'sp.special.sindg': lambda x: sp.sin(x * sp.pi / 180),
               }
        if f in one and len(args) >= 1:
            if f == 'np.arctan2':
                return sp.atan2(self.lift(args[0]), self.lift(args[1]))
            return one[f](self.lift(args[0]))
        if f == 'np.clip' and len(args) == 3:
            return sp.Min(sp.Max(self.lift(args[0]), self.lift(args[1])),
                          self.lift(args[2]))
        if f in ('np.minimum', 'min') and len(args) == 2:
            return sp.Min(self.lift(args[0]), self.lift(args[1]))
        if f in ('np.maximum', 'max') and len(args) == 2:
            return sp.Max(self.lift(args[0]), self.lift(args[1]))
        if f in ('np.sum', 'sum') and len(args) == 1:
            return sp.Function('SUM')(self.lift(args[0]))
        if isinstance(n.func, ast.Attribute):
            m = n.func.attr
            if m == 'conj' and not args:
                return sp.conjugate(self.lift(n.func.value))
            if m == 'sum' and not args:
                return sp.Function('SUM')(self.lift(n.func.value))
            if m in ('copy',) and not args:
                return self.lift(n.func.value)
        if self.strict:
            raise self.err(n, f'call to {f}')
        return self.symbol(ast.unparse(n))


class Path:
    def __init__(self, conds, env, alias, returned=None, raised=None):
        self.conds, self.env, self.alias = conds, env, alias
        self.returned, self.raised = returned, raised

    def holds(self, text):
        """Polarity of condition `text` on this path (None if not tested)."""
        for t, pol in self.conds:
            if t == text:
                return pol
        return None


def straight_paths(stmts, lifter, env=None, max_paths=64):
    """Enumerate if/else paths of a loop-free block; lift assignments."""
    paths = [Path((), dict(env or lifter.env), {})]

    def group(p, name):
        g = p.alias.get(name)
        return g if g else {name}

    def step(st, paths):
        out = []
        for p in paths:
            if p.returned is not None or p.raised is not None:
                out.append(p)
                continue
            if isinstance(st, ast.If):
                t = ast.unparse(st.test)
                for pol, body in ((True, st.body), (False, st.orelse)):
                    sub = [Path(p.conds + ((t, pol),), dict(p.env),
                                dict(p.alias))]
                    for s2 in body:
                        sub = step(s2, sub)
                    out.extend(sub)
            elif isinstance(st, ast.Assign) and len(st.targets) == 1:
                tg = st.targets[0]
                lf = Lifter(p.env, lifter.funcs, lifter.where, lifter.strict,
                            lifter.sym_assume)
                lf.opaque = lifter.opaque
                key = ast.unparse(tg)
                if isinstance(st.value, ast.Constant) and \
                        st.value.value is None:
                    val = None
                else:
                    val = lf.lift(st.value)
                q = Path(p.conds, dict(p.env), dict(p.alias))
                # re-binding removes the target from its alias group
                g = group(q, key) - {key}
                for m in g:
                    q.alias[m] = g
                q.alias.pop(key, None)
                if isinstance(st.value, ast.Name):
                    src = st.value.id
                    g2 = group(q, src) | {key}
                    for m in g2:
                        q.alias[m] = g2
                q.env[key] = val
                out.append(q)
            elif isinstance(st, ast.AugAssign):
                lf = Lifter(p.env, lifter.funcs, lifter.where, lifter.strict,
                            lifter.sym_assume)
                lf.opaque = lifter.opaque
                key = ast.unparse(st.target)
                val = lf.lift(ast.BinOp(st.target, st.op, st.value))
                q = Path(p.conds, dict(p.env), dict(p.alias))
                for m in group(q, key):      # in-place: all aliases change
                    q.env[m] = val
                out.append(q)
            elif isinstance(st, ast.Return):
                lf = Lifter(p.env, lifter.funcs, lifter.where, lifter.strict,
                            lifter.sym_assume)
                lf.opaque = lifter.opaque
                q = Path(p.conds, dict(p.env), dict(p.alias))
                q.returned = ('value', lf.lift(st.value)) if st.value is not \
                    None and not (isinstance(st.value, ast.Constant) and
                                  st.value.value is None) else ('none', None)
                out.append(q)
            elif isinstance(st, ast.Raise):
                q = Path(p.conds, dict(p.env), dict(p.alias))
                q.raised = ast.unparse(st)[:60]
                out.append(q)
            elif isinstance(st, (ast.Expr, ast.Pass)):
                q = Path(p.conds, dict(p.env), dict(p.alias))
                q.env.setdefault('__exprs__', [])
                q.env['__exprs__'] = q.env['__exprs__'] + [st]
                out.append(q)
            else:
                raise AnalysisError(
                    f'{lifter.where}:{getattr(st, "lineno", "?")}: path '
                    f'enumeration: unsupported statement '
                    f'`{ast.unparse(st)[:60]}`')
        if len(out) > max_paths:
            raise AnalysisError(f'{lifter.where}: too many paths')
        return out

    for st in stmts:
        paths = step(st, paths)
    return paths
